"""C18 — SegmentationBuilder2D only ever produces valid room partitions.

E2: explicit-state BFS.  State = partition in canonical form; transition = one
update proposed by the real `candidates(current)` applied with the real
`copy_with_update`.  The module's `random` is replaced by a scripted source:
the two seeds of every `split_block` call range over ALL pairs (offset sweep),
and the `choice` calls of `initial()` are explored with a choice tape.
Invariant on every state: cover, disjointness, orthogonal connectivity, block
count and sizes inside the configured bounds; on every transition: the value an
update is applied to (and every earlier value) is unchanged.
"""

import copy
import itertools

from mc import graphref, harness, par, tape

PID = "C18"


class Abort(Exception):
    pass


class DeadEnd(IndexError):
    """random.choice([]) inside initial(): the random walk reached a partition with no proposed update (not judged:
    the property speaks about the values that are produced, and none is)."""


class Scripted(object):
    """Stands in for the `random` module inside cspuz.generator.segmentation."""

    def __init__(self, offset=0, tp=None, max_choices=6):
        self.t = offset
        self.pending = None
        self.tp = tp
        self.nchoices = 0
        self.max_choices = max_choices

    def randint(self, a, b):
        n = b - a + 1
        if self.pending is None:
            t = self.t
            self.t += 1
            self.pending = t % n
            return a + (t // n) % n
        y = self.pending
        self.pending = None
        return a + y

    def choice(self, seq):
        if len(seq) == 0:
            raise DeadEnd("Cannot choose from an empty sequence")
        self.nchoices += 1
        if self.tp is None:
            self.t += 1
            return seq[self.t % len(seq)]  # deterministic sweep (used by C19, never by C18's own exploration)
        if self.nchoices > self.max_choices:
            raise Abort()
        return seq[self.tp.choose(len(seq))]

    def random(self):
        return 0.5

    def shuffle(self, seq):
        pass


SOURCE_NAMES = ("random", "srandom")  # whichever module-level random source segmentation.py uses


def set_source(seg, obj):
    hit = False
    for name in SOURCE_NAMES:
        if hasattr(seg, name):
            setattr(seg, name, obj)
            hit = True
    if not hit:
        raise RuntimeError("cspuz.generator.segmentation has no module-level random source to script")


def save_source(seg):
    return {name: getattr(seg, name) for name in SOURCE_NAMES if hasattr(seg, name)}


def restore_source(seg, saved):
    for name, v in saved.items():
        setattr(seg, name, v)


def canon(blocks):
    return tuple(sorted(tuple(sorted(map(tuple, b))) for b in blocks))


def cfg_bounds(cfg, h, w):
    mnb, mxb, mns, mxs = cfg
    return (mnb or 1, mxb or h * w, mns or 1, mxs or h * w)


def invariant(blocks, h, w, cfg, universe=None):
    """None if valid, else a reason.  universe: the cells the caller's initial_blocks cover (default: the whole board)."""
    mnb, mxb, mns, mxs = cfg_bounds(cfg, h, w)
    cells = [tuple(c) for b in blocks for c in b]
    if sorted(cells) != (sorted(universe) if universe is not None else [(y, x) for y in range(h) for x in range(w)]):
        return "not-a-partition"
    if any(len(b) == 0 for b in blocks):
        return "empty-block"
    for b in blocks:
        cells = set(tuple(c) for c in b)
        start = next(iter(cells))
        seen = {start}
        stack = [start]
        while stack:
            y, x = stack.pop()
            for c in ((y + 1, x), (y - 1, x), (y, x + 1), (y, x - 1)):
                if c in cells and c not in seen:
                    seen.add(c)
                    stack.append(c)
        if len(seen) != len(cells):
            return "disconnected-block"
    if not (mnb <= len(blocks) <= mxb):
        return "block-count-out-of-bounds"
    if any(not (mns <= len(b) <= mxs) for b in blocks):
        return "block-size-out-of-bounds"
    return None


def make_builder(h, w, cfg, **kw):
    from cspuz.generator.segmentation import SegmentationBuilder2D

    mnb, mxb, mns, mxs = cfg
    if (h + w + sum(1 for v in cfg if v is not None)) % 2:
        # every second configuration passes the bounds positionally, in the documented order
        return SegmentationBuilder2D(h, w, mnb, mxb, mns, mxs, **kw)
    return SegmentationBuilder2D(h, w, min_num_blocks=mnb, max_num_blocks=mxb, min_block_size=mns, max_block_size=mxs, **kw)


def successors(part, b, blocks, h, w, cfg, case, max_offsets=None):
    """All successors of `blocks` (list of lists): union over the seed-pair sweep.  Checks immutability.
    max_offsets: evenly spaced subset of the n^2 seed pairs (state families on boards too large for the full sweep)."""
    from cspuz.generator import segmentation as seg

    out = {}
    maxn = max(len(x) for x in blocks)
    snapshot = copy.deepcopy(blocks)
    history = []
    total = maxn * maxn
    offsets = range(total) if not max_offsets or total <= max_offsets else sorted(set(total * k // max_offsets for k in range(max_offsets)))
    for offset in offsets:
        set_source(seg, Scripted(offset))
        try:
            cands = b.candidates(blocks)
        except Exception as e:
            part.violation("candidates-raises-" + type(e).__name__, dict(case, state=snapshot), {"exception": repr(e)[:200]})
            return out
        part.count("candidate_calls")
        if blocks != snapshot:
            part.violation("candidates-mutated-its-argument", dict(case, state=snapshot), {"now": blocks})
            return out
        for upd in cands:
            upd_snapshot = copy.deepcopy(upd)
            try:
                nxt = b.copy_with_update(blocks, upd)
            except Exception as e:
                part.violation("copy_with_update-raises-" + type(e).__name__, dict(case, state=snapshot, update=upd_snapshot), {"exception": repr(e)[:200]})
                continue
            part.count("transitions")
            if blocks != snapshot:
                part.violation("update-mutated-the-value-it-was-applied-to", dict(case, state=snapshot, update=upd_snapshot), {"now": copy.deepcopy(blocks)})
                return out
            k = canon(nxt)
            if k not in out:
                out[k] = (nxt, upd_snapshot)
                history.append((nxt, copy.deepcopy(nxt)))
    # values produced earlier must not have been modified by later sibling updates (shared sub-lists)
    for nxt, snap in history:
        if nxt != snap:
            part.violation("later-update-mutated-an-earlier-result", dict(case, state=snapshot), {"was": snap, "now": nxt})
            break
    return out


def explore_config(part, h, w, cfg, seeds_from_all_valid, state_cap):
    from cspuz.generator import segmentation as seg

    saved = save_source(seg)
    case = {"board": [h, w], "config": list(cfg)}
    try:
        # which partitions are valid at all?
        valid = []
        for p in graphref.connected_partitions(h * w, graphref.grid_edges(h, w)):
            blocks = [[divmod(c, w) for c in blk] for blk in p]
            if invariant(blocks, h, w, cfg) is None:
                valid.append(blocks)
        if not valid:
            part.count("configs_without_valid_partition")
            return
        b = make_builder(h, w, cfg)
        seeds = {}

        def one(tp):
            set_source(seg, Scripted(0, tp))
            try:
                return ("ok", b.initial())
            except Abort:
                return ("abort", None)
            except DeadEnd:
                return ("dead-end", None)
            except Exception as e:
                return ("raises", e)

        nexec = 0
        for choices, (st, val) in tape.explore(one, max_executions=300):
            nexec += 1
            if st == "dead-end":
                part.count("initial_dead_ends_not_judged")
            elif st == "raises":
                part.violation("initial-raises-" + type(val).__name__, dict(case, tape=choices), {"exception": repr(val)[:200]})
            elif st == "ok":
                why = invariant(val, h, w, cfg)
                if why:
                    part.violation("initial:" + why, dict(case, tape=choices), {"value": val})
                else:
                    seeds.setdefault(canon(val), val)
        part.count("initial_executions", nexec)
        if seeds_from_all_valid:
            for blocks in valid:
                bb = make_builder(h, w, cfg, initial_blocks=blocks)
                set_source(seg, Scripted(0))
                try:
                    v = bb.initial()
                    if invariant(v, h, w, cfg) is None:
                        seeds.setdefault(canon(v), v)
                        if v is blocks or any(x is y for x in v for y in blocks):
                            part.violation("initial-returns-the-callers-initial_blocks-object", dict(case), {})
                except Exception as e:
                    part.violation("initial(initial_blocks)-raises-" + type(e).__name__, dict(case, state=blocks), {"exception": repr(e)[:200]})
        seen = dict(seeds)
        frontier = list(seeds.values())
        depth = 0
        while frontier and len(seen) <= state_cap:
            depth += 1
            nxt_frontier = []
            for blocks in frontier:
                for presentation in (blocks, [list(reversed(x)) for x in reversed(blocks)]):
                    succ = successors(part, b, presentation, h, w, cfg, case)
                    for k, (val, upd) in succ.items():
                        why = invariant(val, h, w, cfg)
                        if why:
                            part.violation("update:" + why, dict(case, state=[list(x) for x in presentation], update=upd), {"result": val})
                        elif k not in seen:
                            seen[k] = val
                            nxt_frontier.append(val)
            frontier = nxt_frontier
        if len(seen) > state_cap:
            part.count("configs_capped")
        for k in seen:
            part.add("states", (h, w, cfg, k))
        part.maxi("depth", depth)
        part.maxi("states_per_config", len(seen))
        part.count("configs_explored")
        part.outcome("reachable=%s" % ("all-valid" if len(seen) == len(valid) else "subset"))
    finally:
        restore_source(seg, saved)


def explore_partial(part, h, w, holes, cfg, state_cap):
    """The caller's initial_blocks leave some cells of the board uncovered (the builder keeps them out of every block):
    from every valid partition of the covered cells, BFS over the proposed updates; every value must again be a
    partition of exactly the covered cells into connected blocks within the bounds."""
    from cspuz.generator import segmentation as seg

    saved = save_source(seg)
    case = {"board": [h, w], "config": list(cfg), "uncovered": [list(c) for c in holes]}
    covered = [(y, x) for y in range(h) for x in range(w) if (y, x) not in set(holes)]
    idx = {c: k for k, c in enumerate(covered)}
    edges = [(idx[a], idx[b]) for a in covered for b in ((a[0] + 1, a[1]), (a[0], a[1] + 1)) if b in idx]
    try:
        seeds = {}
        for p in graphref.connected_partitions(len(covered), edges):
            blocks = [[covered[c] for c in blk] for blk in p]
            if invariant(blocks, h, w, cfg, covered) is None:
                seeds[canon(blocks)] = blocks
        if not seeds:
            part.count("configs_without_valid_partition")
            return
        b = make_builder(h, w, cfg, initial_blocks=next(iter(seeds.values())))
        seen = dict(seeds)
        frontier = list(seeds.values())
        depth = 0
        while frontier and len(seen) <= state_cap and depth < 3:
            depth += 1
            nxt_frontier = []
            for blocks in frontier:
                succ = successors(part, b, blocks, h, w, cfg, case)
                for k, (val, upd) in succ.items():
                    why = invariant(val, h, w, cfg, covered)
                    if why:
                        part.violation("update(partial-cover):" + why, dict(case, state=[list(x) for x in blocks], update=upd), {"result": val})
                    elif k not in seen:
                        seen[k] = val
                        nxt_frontier.append(val)
            frontier = nxt_frontier
        for k in seen:
            part.add("states", (h, w, cfg, tuple(holes), k))
        part.count("configs_explored")
    finally:
        restore_source(seg, saved)


def comps(cells):
    cells = set(cells)
    out = []
    while cells:
        start = min(cells)
        seen = {start}
        stack = [start]
        while stack:
            y, x = stack.pop()
            for c in ((y + 1, x), (y - 1, x), (y, x + 1), (y, x - 1)):
                if c in cells and c not in seen:
                    seen.add(c)
                    stack.append(c)
        out.append(sorted(seen))
        cells -= seen
    return out


def hole_states(h, w, max_app):
    """Partitions in which one block encloses another: a ring around an inner rectangle, extended by every connected
    choice of up to max_app outside cells (appendages: bridges, tails); the inner rectangle is one block (or single cells),
    the remaining outside cells form their connected components (or single cells)."""
    allc = [(y, x) for y in range(h) for x in range(w)]
    out = []
    for ih in (1, 2):
        for iw in (1, 2):
            for y0 in range(1, h - ih):
                for x0 in range(1, w - iw):
                    inner = [(y, x) for y in range(y0, y0 + ih) for x in range(x0, x0 + iw)]
                    box = [(y, x) for y in range(y0 - 1, y0 + ih + 1) for x in range(x0 - 1, x0 + iw + 1)]
                    ring = [c for c in box if c not in inner]
                    outside = [c for c in allc if c not in box]
                    for k in range(0, min(max_app, len(outside)) + 1):
                        for app in itertools.combinations(outside, k):
                            big = ring + list(app)
                            if len(comps(big)) != 1:
                                continue
                            rest = [c for c in outside if c not in app]
                            for inner_blocks in ([sorted(inner)], [[c] for c in inner]):
                                for rest_blocks in (comps(rest), [[c] for c in rest]):
                                    st = [sorted(big)] + inner_blocks + rest_blocks
                                    if st not in out:
                                        out.append(st)
    return out


def notch_states(h, w, positions):
    """One big block = the board minus a single cell (a notch in an edge, or an enclosed cell), the single cell its own block."""
    allc = [(y, x) for y in range(h) for x in range(w)]
    out = []
    for c in positions:
        rest = [d for d in allc if d != c]
        if len(comps(rest)) == 1:
            out.append([rest, [c]])
    return out


def big_hole_states(h, w):
    """A board-sized block (more than 256 cells) with a hole, a one-cell bridge and a tail: a small block at the edge that
    leaves a corner cell hanging on a single bridge cell, and an enclosed single cell."""
    allc = [(y, x) for y in range(h) for x in range(w)]
    out = []
    for small in ([(1, 0), (1, 1)], [(0, 1), (1, 1)], [(h - 2, w - 1), (h - 2, w - 2)], [(1, 0), (1, 1), (1, 2)]):
        for hole in ((3, 1), (h // 2, w // 2), (h - 4, w - 2)):
            if hole in small or any(abs(hole[0] - c[0]) + abs(hole[1] - c[1]) <= 1 for c in small):
                continue
            rest = [c for c in allc if c not in small and c != hole]
            if len(comps(rest)) == 1:
                out.append([rest, list(small), [hole]])
    return out


def explore_states(part, h, w, states, cfg, max_offsets, label):
    """Every update proposed from each of the given states (no closure): invariant on every result."""
    from cspuz.generator import segmentation as seg

    saved = save_source(seg)
    case = {"board": [h, w], "config": list(cfg), "family": label}
    try:
        b = make_builder(h, w, cfg)
        for blocks in states:
            if invariant(blocks, h, w, cfg) is not None:
                continue
            succ = successors(part, b, [list(x) for x in blocks], h, w, cfg, case, max_offsets)
            for k, (val, upd) in succ.items():
                why = invariant(val, h, w, cfg)
                if why:
                    part.violation("update(%s):%s" % (label, why), dict(case, state=[list(x) for x in blocks], update=upd), {"result": val})
            part.add("states", (h, w, cfg, label, canon(blocks)))
        part.count("configs_explored")
    finally:
        restore_source(seg, saved)


PARTIAL = [(2, 3, ((0, 2),)), (3, 3, ((1, 1),)), (3, 4, ((0, 3), (1, 3), (2, 3))), (2, 4, ((0, 1), (1, 3))), (3, 3, ((0, 0), (2, 2))), (1, 5, ((0, 2),))]


def long_walk(part, h, w, cfg, steps, stride, start="initial"):
    """Deterministic long history on a board too large for BFS: starting from initial(), repeatedly apply one of the
    proposed updates (picked by a fixed stride), checking the invariant and immutability at every step."""
    from cspuz.generator import segmentation as seg

    saved = save_source(seg)
    case = {"board": [h, w], "config": list(cfg), "walk_stride": stride}
    try:
        kw = {}
        if start == "singles":
            kw["initial_blocks"] = [[(y, x)] for y in range(h) for x in range(w)]
        elif start == "rows":
            kw["initial_blocks"] = [[(y, x) for x in range(w)] for y in range(h)]
        elif start == "snake-halves":
            # two rooms each touching the last column in one row and the first column in the next
            order = graphref.boustrophedon(h, w)
            kw["initial_blocks"] = [order[: len(order) // 2], order[len(order) // 2 :]]
        b = make_builder(h, w, cfg, **kw)
        case["start"] = start
        set_source(seg, Scripted(stride))
        try:
            cur = b.initial()
        except DeadEnd:
            part.count("initial_dead_ends_not_judged")
            return
        except Exception as e:
            part.violation("walk:initial-raises-" + type(e).__name__, case, {"exception": repr(e)[:200]})
            return
        why = invariant(cur, h, w, cfg)
        if why:
            part.violation("walk:initial:" + why, case, {"value": cur})
            return
        trail = []
        for step in range(steps):
            set_source(seg, Scripted(step * 31 + stride))
            snap = copy.deepcopy(cur)
            try:
                cands = b.candidates(cur)
            except Exception as e:
                part.violation("walk:candidates-raises-" + type(e).__name__, dict(case, step=step), {"exception": repr(e)[:200]})
                return
            part.count("candidate_calls")
            if cur != snap:
                part.violation("walk:candidates-mutated-its-argument", dict(case, step=step), {})
                return
            if not cands:
                break
            # judge every proposed update of this state, follow one of them
            nxt_cur = None
            for k, upd in enumerate(cands):
                nxt = b.copy_with_update(cur, upd)
                part.count("transitions")
                if cur != snap:
                    part.violation("walk:update-mutated-the-value-it-was-applied-to", dict(case, step=step), {})
                    return
                why = invariant(nxt, h, w, cfg)
                if why:
                    part.violation("walk:update:" + why, dict(case, step=step, state=snap, update=copy.deepcopy(upd)), {"result": nxt})
                    return
                if k == (step * stride + 3) % len(cands):
                    nxt_cur = nxt
            trail.append((cur, snap))
            cur = nxt_cur
            part.add("states", (h, w, cfg, canon(cur)))
        for obj, snap in trail:
            if obj != snap:
                part.violation("walk:earlier-value-mutated-later", case, {})
                break
        part.maxi("walk_length", len(trail))
    finally:
        restore_source(seg, saved)


def configs(h, w, tier):
    n = h * w
    menu = [None, 1, 2, 3, n]
    menu = sorted(set(menu), key=lambda v: (v is not None, v))
    out = []
    for cfg in itertools.product(menu, repeat=4):
        mnb, mxb, mns, mxs = cfg_bounds(cfg, h, w)
        if mnb > mxb or mns > mxs:
            continue
        out.append(cfg)
    return out


def worker(shard, part):
    if shard[0] == "holes":
        _, h, w, max_app, lo, hi = shard
        explore_states(part, h, w, hole_states(h, w, max_app)[lo:hi], (None, None, None, None), 24, "holes")
        return
    if shard[0] == "bighole":
        _, h, w, lo, hi = shard
        explore_states(part, h, w, big_hole_states(h, w)[lo:hi], (None, None, None, None), 6, "big-holes")
        return
    if shard[0] == "notch":
        _, h, w, positions, max_offsets = shard
        explore_states(part, h, w, notch_states(h, w, positions), (None, None, None, None), max_offsets, "notch")
        return
    if shard[0] == "partial":
        _, h, w, holes, cfg = shard
        explore_partial(part, h, w, holes, cfg, 4000)
        return
    if shard[0] == "walk":
        _, h, w, cfg, steps, stride = shard[:6]
        long_walk(part, h, w, cfg, steps, stride, shard[6] if len(shard) > 6 else "initial")
        return
    h, w, cfgs, allvalid, cap = shard
    for cfg in cfgs:
        explore_config(part, h, w, cfg, allvalid, cap)
    part.sample({"board": [h, w], "configs": [list(c) for c in cfgs[:3]]})


def main(tier, seed, only=None):
    shards = []
    maxcells = 6 if tier == "quick" else 9
    boards = [(h, w) for h in range(1, 10) for w in range(1, 10) if h * w <= maxcells]
    for h, w in boards:
        cfgs = configs(h, w, tier)
        if h * w >= 8:
            # larger boards: a reduced configuration menu (unbounded, size-bounded, count-bounded, both)
            cfgs = [c for c in cfgs if c in ((None, None, None, None), (None, None, 2, 3), (2, 3, None, None), (2, None, 2, None), (None, 3, None, h * w), (3, 3, 1, h * w), (None, None, None, 3))]
        step = 8 if h * w >= 6 else 40
        for lo in range(0, len(cfgs), step):
            shards.append((h, w, cfgs[lo : lo + step], tier != "quick" or h * w <= 4, 20000))
    walk_cfgs = [(None, None, None, None), (3, 8, 2, 6), (None, None, 1, 4), (4, 4, None, None), (2, None, 3, None), (None, 6, None, 9)]
    for (h, w) in ([(5, 5), (4, 8), (10, 10)] if tier == "quick" else [(5, 5), (4, 8), (8, 4), (10, 10), (17, 17), (1, 40), (40, 1)]):
        for cfg in walk_cfgs:
            for stride in ((1, 5) if tier == "quick" else (1, 5, 11)):
                shards.append(("walk", h, w, cfg, 150 if tier == "quick" else 400, stride))
    # boards wider than 64 columns and partitions with more than 256 rooms (thresholds of packed keys / small-int identity)
    for (h, w, start) in [(2, 70, "initial"), (2, 70, "rows"), (2, 70, "snake-halves"), (3, 66, "snake-halves"), (16, 17, "singles"), (2, 150, "singles")] + \
            ([] if tier == "quick" else [(1, 300, "singles"), (4, 130, "snake-halves"), (20, 20, "singles"), (70, 2, "snake-halves")]):
        for stride in (1, 5):
            shards.append(("walk", h, w, (None, None, None, None), 10 if tier == "quick" else 60, stride, start))
    # state families (no closure): blocks with holes and appendages; almost-rectangular big blocks with all seed pairs
    for (h, w, max_app) in ([(3, 5, 3), (5, 3, 3), (4, 4, 3), (4, 5, 2)] if tier == "quick" else [(3, 5, 5), (5, 3, 5), (4, 4, 5), (4, 5, 3), (5, 4, 3), (5, 5, 2), (3, 6, 4)]):
        n = len(hole_states(h, w, max_app))
        for lo in range(0, n, 60):
            shards.append(("holes", h, w, max_app, lo, lo + 60))
    for (h, w, positions) in ([(4, 4, ((0, 1), (1, 1), (0, 0))), (7, 8, ((0, 3),)), (7, 8, ((3, 3),)), (6, 9, ((5, 4),))] if tier == "quick" else
                              [(4, 4, tuple((y, x) for y in range(4) for x in range(4)))] + [(7, 8, ((y, x),)) for (y, x) in ((0, 0), (0, 3), (1, 1), (3, 3), (3, 0), (2, 5))] + [(6, 9, ((5, 4),)), (8, 8, ((0, 4),)), (8, 8, ((4, 4),)), (5, 11, ((0, 5),)), (10, 6, ((4, 0),))]):
        shards.append(("notch", h, w, positions, 500 if (tier == "quick" and h * w > 20) else None))
    for (h, w) in ([(17, 17)] if tier == "quick" else [(17, 17), (16, 18), (20, 20)]):
        for lo in range(0, len(big_hole_states(h, w)), 2):
            shards.append(("bighole", h, w, lo, lo + 2))
    for (h, w, holes) in PARTIAL:
        for cfg in ((None, None, None, None), (None, None, 1, 3), (2, 4, None, None), (None, 3, 2, None)):
            shards.append(("partial", h, w, holes, cfg))
    run = harness.Run(
        PID, tier, seed, "model_checking",
        "boards with h*w <= %d (all shapes incl. 1xN); configurations: all (min_blocks, max_blocks, min_size, max_size) over {None,1,2,3,h*w} "
        "with min<=max that admit at least one partition (boards of 8-9 cells: 7 representative configurations); initial() explored with a "
        "choice tape (<= 6 choice points, <= 300 executions) and%s from every valid partition given as initial_blocks; BFS to the fixpoint "
        "over updates proposed by the real candidates(), the two seeds of every split_block call swept over all n^2 pairs, every state "
        "expanded in two presentations (canonical, reversed).  Invariant per state: partition, connected blocks, count and sizes in bounds; "
        "per transition: source value and earlier results unchanged.  Scale family: deterministic walks of 150 (thorough 400) steps on 5x5, 4x8, 10x10 "
        "(thorough 17x17, 1x40) boards under 6 configurations, judging every proposed update of every visited state; also boards 2x70 / 3x66 and partitions with 272 / 300 single-cell rooms given as initial_blocks.  Partial cover: initial_blocks that leave cells of the board uncovered (6 hole patterns x 4 configurations), BFS of depth 3 from every valid partition of the covered cells; every value must partition exactly the covered cells.  State families (every proposed update judged, no closure): partitions with a block that encloses another (ring around an inner 1x1 .. 2x2 rectangle on 3x5 .. 4x5 boards, thorough to 5x6) extended by every connected choice of a few outside cells; a board minus one cell as one block (4x4 all positions; 7x8, 6x9 selected positions, thorough more) with all seed pairs of the split (quick: 500 evenly spaced pairs on the 7x8 / 6x9 boards); a board-sized block of more than 256 cells with a hole, a bridge and a tail on 17x17 (thorough 16x18, 20x20).  Bounds are passed positionally by every second configuration." % (maxcells, " (boards <= 4 cells)" if tier == "quick" else ""),
    )
    run.assumptions = [
        "canonical state = sorted tuple of sorted blocks; sound because the set of proposed successor partitions is independent of block / cell "
        "order once all seed pairs are enumerated (each state is nevertheless expanded in two presentations)",
        "allow_unmet_constraints_first=True is outside the property (it promises nothing about the first value)",
        "initial_blocks covering only part of the board (the builder supports it: uncovered cells belong to no block) are judged against the covered cells",
    ]
    first = [sh for sh in shards if sh[0] in ("notch", "walk", "bighole") and sh[1] * sh[2] >= 50]
    par.run_shards(run, worker, [sh for sh in shards if sh not in first], seed, first=first)
    cov = {
        "states": run.n("states"),
        "transitions": run.c("transitions"),
        "traces_validated_against_impl": run.c("candidate_calls") + run.c("initial_executions"),
        "configs_explored": run.c("configs_explored"),
        "configs_capped": run.c("configs_capped"),
        "max_depth": run.c("max:depth"),
        "max_states_per_config": run.c("max:states_per_config"),
        "evaluations": run.c("transitions"),
        "distinct_nontrivial": run.n("states"),
        "exhaustive": run.c("configs_capped") == 0,
    }
    return run.finish(cov)


def replay(case):
    part = harness.Partial()
    h, w = case["board"]
    cfg = tuple(case["config"])
    explore_config(part, h, w, cfg, True, 20000)
    return (not part.violations), (part.violations[0].detail if part.violations else "invariants hold on every reachable state")
