"""C14 — BoolGridFrame accessors are consistent with the lattice geometry.

E1: frames with h, w in 0..3 (0..4), default-constructed and built from explicit
arrays; every coordinate in and around the frame for every accessor; reference
model: an edge *is* its pair of lattice points.  All comparisons are on
variable identity.
"""

from mc import harness, par

PID = "C14"


def obs(fn):
    try:
        return ("ok", fn())
    except IndexError:
        return ("IndexError", None)
    except Exception as e:
        return ("raises-" + type(e).__name__, repr(e)[:200])


def ids(arr):
    return [getattr(v, "id", None) for v in arr]


def model(h, w, hid, vid):
    """Reference: dict segment -> variable id, segment = frozenset of two lattice points."""
    seg = {}
    for y in range(h + 1):
        for x in range(w):
            seg[frozenset([(y, x), (y, x + 1)])] = hid[y * w + x]
    for y in range(h):
        for x in range(w + 1):
            seg[frozenset([(y, x), (y + 1, x)])] = vid[y * (w + 1) + x]
    return seg


def run_frame(part, h, w, how):
    from cspuz import BoolGridFrame, Solver, graph
    from cspuz.array import BoolArray1D
    from cspuz.grid_frame import BoolInnerGridFrame

    s = Solver()
    case = {"frame": [h, w], "built": how}
    if how.startswith("default"):
        pad = s.bool_array(3)  # ids do not start at 0
        fr = BoolGridFrame(s, h, w)
    elif how.startswith("explicit"):
        ver = s.bool_array((h, w + 1))
        pad = s.bool_array(2)
        hor = s.bool_array((h + 1, w))
        fr = BoolGridFrame(s, h, w, horizontal=hor, vertical=ver)
        if fr.horizontal is not hor or fr.vertical is not ver:
            part.violation("constructor:explicit-arrays-not-used", case, {})
            return
    else:  # as the dual of an inner frame
        inner = BoolInnerGridFrame(s, h + 1, w + 1)
        if "+rebound" in how:
            inner.dual()
            list(inner)
            inner.horizontal = s.bool_array(tuple(inner.horizontal.shape))
            inner.vertical = s.bool_array(tuple(inner.vertical.shape))
        fr = inner.dual()
    if "+rebound" in how and not how.startswith("dual-of-inner"):
        # the frame object is used first (dual, iteration, inferred graph, a loop constraint), then the caller replaces its
        # public edge arrays by new ones of the right shape: every accessor must speak about the new variables from now on
        for use in (lambda: fr.dual(), lambda: fr.dual().dual(), lambda: list(fr), lambda: graph._from_grid_frame(fr), lambda: fr.single_loop(),
                    lambda: graph.active_edges_single_path(s, fr, use_graph_primitive=True)):
            try:
                use()
            except Exception:
                pass
        fr.vertical = s.bool_array((h, w + 1))
        fr.horizontal = s.bool_array((h + 1, w))
    V = lambda key, detail: part.violation(key, dict(case), detail)  # noqa: E731
    part.count("evaluations")
    if fr.height != h or fr.width != w or tuple(fr.horizontal.shape) != (h + 1, w) or tuple(fr.vertical.shape) != (h, w + 1):
        V("shape:arrays", {"height": fr.height, "width": fr.width, "horizontal": repr(fr.horizontal.shape), "vertical": repr(fr.vertical.shape)})
        return
    hid, vid = ids(fr.horizontal.data), ids(fr.vertical.data)
    if len(set(hid + vid)) != len(hid) + len(vid) or None in hid + vid:
        V("shape:variables-not-distinct", {})
        return
    seg = model(h, w, hid, vid)
    # __getitem__ on doubled coordinates
    for Y in range(-2, 2 * h + 3):
        for X in range(-2, 2 * w + 3):
            part.count("evaluations")
            st, r = obs(lambda: fr[Y, X])
            exp = None
            if 0 <= Y <= 2 * h and 0 <= X <= 2 * w:
                if Y % 2 == 0 and X % 2 == 1:
                    exp = seg[frozenset([(Y // 2, X // 2), (Y // 2, X // 2 + 1)])]
                elif Y % 2 == 1 and X % 2 == 0:
                    exp = seg[frozenset([(Y // 2, X // 2), (Y // 2 + 1, X // 2)])]
            part.outcome("getitem:" + ("edge" if exp is not None else "IndexError"))
            c = dict(case, at=[Y, X])
            if exp is None:
                if st != "IndexError":
                    part.violation("getitem:no-IndexError", c, {"observed": st})
            elif st != "ok" or getattr(r, "id", None) != exp:
                part.violation("getitem:wrong-edge", c, {"observed": st, "id": getattr(r, "id", None), "expected": exp})
    # cell_neighbors / vertex_neighbors, both call forms
    for y in range(-1, h + 2):
        for x in range(-1, w + 2):
            for form in ("yx", "tuple"):
                part.count("evaluations", 2)
                c = dict(case, at=[y, x], form=form)
                st, r = obs(lambda: fr.cell_neighbors(y, x) if form == "yx" else fr.cell_neighbors((y, x)))
                if 0 <= y < h and 0 <= x < w:
                    exp = sorted([seg[frozenset([(y, x), (y, x + 1)])], seg[frozenset([(y + 1, x), (y + 1, x + 1)])],
                                  seg[frozenset([(y, x), (y + 1, x)])], seg[frozenset([(y, x + 1), (y + 1, x + 1)])]])
                    if st != "ok" or not isinstance(r, BoolArray1D) or sorted(ids(r)) != exp:
                        part.violation("cell_neighbors:wrong", c, {"observed": st, "ids": ids(r) if st == "ok" else None, "expected": exp})
                elif st != "IndexError":
                    part.violation("cell_neighbors:no-IndexError", c, {"observed": st})
                st, r = obs(lambda: fr.vertex_neighbors(y, x) if form == "yx" else fr.vertex_neighbors((y, x)))
                if 0 <= y <= h and 0 <= x <= w:
                    exp = sorted(v for k, v in seg.items() if (y, x) in k)
                    if st != "ok" or not isinstance(r, BoolArray1D) or sorted(ids(r)) != exp:
                        part.violation("vertex_neighbors:wrong", c, {"observed": st, "ids": ids(r) if st == "ok" else None, "expected": exp})
                elif st != "IndexError":
                    part.violation("vertex_neighbors:no-IndexError", c, {"observed": st})
    # all_edges / iteration: horizontal row-major then vertical row-major, each edge once
    part.count("evaluations", 2)
    st, r = obs(lambda: fr.all_edges())
    if st != "ok" or not isinstance(r, BoolArray1D) or ids(r) != hid + vid:
        V("all_edges:order", {"observed": st})
    st, r = obs(lambda: list(fr))
    if st != "ok" or ids(r) != hid + vid:
        V("iter:order", {"observed": st})
    # graph inferred by the loop constraints
    part.count("evaluations")
    st, r = obs(lambda: graph._from_grid_frame(fr))
    if st != "ok":
        V("from_grid_frame:" + st, {"detail": r})
    else:
        edges, g = r
        got = {}
        bad = g.num_vertices != (h + 1) * (w + 1) or len(edges) != len(g.edges) or len(edges) != len(seg)
        for e, (u, v) in zip(edges, g.edges):
            k = frozenset([divmod(u, w + 1), divmod(v, w + 1)])
            if k in got:
                bad = True
            got[k] = getattr(e, "id", None)
        if bad or got != seg:
            V("from_grid_frame:edge-set-differs", {"edges": len(edges)})
    # duality
    part.count("evaluations", 3)
    st, d = obs(lambda: fr.dual())
    if st != "ok" or not isinstance(d, BoolInnerGridFrame):
        V("dual:" + st, {})
        return
    if d.height != h + 1 or d.width != w + 1 or tuple(d.horizontal.shape) != (h, w + 1) or tuple(d.vertical.shape) != (h + 1, w):
        V("dual:shape", {"height": d.height, "width": d.width, "horizontal": repr(d.horizontal.shape), "vertical": repr(d.vertical.shape)})
    else:
        # inner.horizontal[y, x] separates cells (y, x) / (y+1, x)  <->  the segment joining points (y, x)-(y+1, x)
        ok = True
        for y in range(h):
            for x in range(w + 1):
                if getattr(d.horizontal[y, x], "id", None) != seg[frozenset([(y, x), (y + 1, x)])]:
                    ok = False
        for y in range(h + 1):
            for x in range(w):
                if getattr(d.vertical[y, x], "id", None) != seg[frozenset([(y, x), (y, x + 1)])]:
                    ok = False
        if not ok:
            V("dual:variables-moved", {})
        st, it = obs(lambda: list(d))
        if st != "ok" or sorted(ids(it)) != sorted(hid + vid) or len(it) != len(hid) + len(vid):
            V("dual:iter", {"observed": st})
    st, dd = obs(lambda: fr.dual().dual())
    if st != "ok" or not isinstance(dd, BoolGridFrame) or dd.height != h or dd.width != w or ids(dd.horizontal.data) != hid or ids(dd.vertical.data) != vid \
            or tuple(dd.horizontal.shape) != (h + 1, w) or tuple(dd.vertical.shape) != (h, w + 1):
        V("dual:not-an-involution", {"observed": st})
    part.add("frames", (h, w, how))


def run_history(part, K):
    """Frames handled one after another in the same process: pairs of shapes that collide under a packed key h*K+w (or
    w*K+h), each checked against the lattice model right after its partner - a per-shape cache keyed carelessly, or any other
    state kept between frames, shows here."""
    from cspuz import BoolGridFrame, Solver, graph

    seqs = []
    for c in (0, 1, 3):
        seqs.append([(0, K + c), (1, c)])
        seqs.append([(1, c), (0, K + c)])
        seqs.append([(K + c, 0), (c, 1)])
        seqs.append([(2, K + c + 1), (3, c + 1), (2, K + c + 1)])
    for seq in seqs:
        for (h, w) in seq:
            part.count("evaluations")
            case = {"frame": [h, w], "built": "default", "history": [list(x) for x in seq]}
            s = Solver()
            fr = BoolGridFrame(s, h, w)
            hid, vid = ids(fr.horizontal.data), ids(fr.vertical.data)
            seg = model(h, w, hid, vid)
            st, r = obs(lambda: graph._from_grid_frame(fr))
            if st != "ok":
                part.violation("history:from_grid_frame:" + st, case, {"detail": r})
                continue
            edges, g = r
            got = {}
            bad = g.num_vertices != (h + 1) * (w + 1) or len(edges) != len(g.edges) or len(edges) != len(seg)
            if not bad:
                for e, (u, v) in zip(edges, g.edges):
                    got[frozenset([divmod(u, w + 1), divmod(v, w + 1)])] = getattr(e, "id", None)
            if bad or got != seg:
                part.violation("history:from_grid_frame:edge-set-differs", case, {"edges": len(edges), "graph_edges": len(g.edges), "segments": len(seg)})
            st, d = obs(lambda: fr.dual().dual())
            if st != "ok" or d.height != h or d.width != w or ids(d.horizontal.data) != hid:
                part.violation("history:dual", case, {"observed": st})
    part.add("frames", ("history", K))


def run_loops(part, h, w):
    """Behavioural binding of the accessors to the loop constraints: each constraint is posted on a fresh frame; the edge
    sets the *accessors* return for a cell (its four sides), for one segment, and for two segments meeting at a lattice
    point are imposed as the only active edges.  A cell's sides must be admitted as a single cycle, one segment / two
    segments at a point as a single path, with the returned array forced true exactly at the lattice points those
    segments join; two segments that do not touch must be refused."""
    from cspuz import BoolGridFrame, Solver, graph
    from cspuz.expr import BoolExpr, Op

    from mc import gcheck

    def post(kind):
        s = Solver()
        s.bool_array(2)
        fr = BoolGridFrame(s, h, w)
        if kind == "cycle-aux":
            passed = graph.active_edges_single_cycle(s, fr, use_graph_primitive=False)
        elif kind == "cycle-native":
            passed = graph.active_edges_single_cycle(s, fr, use_graph_primitive=True)
        elif kind == "loop":
            passed = fr.single_loop()
        elif kind == "path-native":
            passed = graph.active_edges_single_path(s, fr, use_graph_primitive=True)
        else:
            passed, _ = graph.active_edges_connected_crossable(s, fr, single_cycle=(kind == "crossable-cycle"), use_graph_primitive=False)
        return s, fr, passed

    def ask(kind, s, fr, passed, active, want_points, what):
        allv = list(fr.all_edges())
        act = set(v.id for v in active)
        fixes = [gcheck.fix(v, v.id in act) for v in allv]
        case = {"frame": [h, w], "built": "default", "constraint": kind, "what": what}
        part.count("evaluations")
        try:
            sat = gcheck.decide(s, fixes)
            if want_points is None:
                if sat is not False:
                    part.violation("loops[%s]:non-touching-segments-admitted" % kind, case, {})
                return
            if sat is not True:
                part.violation("loops[%s]:accessor-edge-set-refused" % kind, case, {"observed_sat": sat})
                return
            flat = list(passed)
            exp = [(divmod(k, w + 1) in want_points) for k in range((h + 1) * (w + 1))]
            differs = BoolExpr(Op.OR, [BoolExpr(Op.XOR, [pv, b]) for pv, b in zip(flat, exp)])
            if gcheck.decide(s, fixes + [differs]) is not False:
                part.violation("loops[%s]:visited-points-differ-from-geometry" % kind, case, {"expected_points": sorted(want_points)})
        except Exception as e:
            part.violation("loops[%s]:raises-%s" % (kind, type(e).__name__), case, {"exception": repr(e)[:200]})

    for kind in ("cycle-aux", "cycle-native", "loop", "path-native", "crossable-cycle", "crossable-path"):
        try:
            s, fr, passed = post(kind)
        except Exception as e:
            part.violation("loops[%s]:post-raises-%s" % (kind, type(e).__name__), {"frame": [h, w], "built": "default", "constraint": kind}, {"exception": repr(e)[:200]})
            continue
        is_cycle = kind in ("cycle-aux", "cycle-native", "loop", "crossable-cycle")
        if is_cycle:
            for y in range(h):
                for x in range(w):
                    ask(kind, s, fr, passed, list(fr.cell_neighbors(y, x)), {(y, x), (y + 1, x), (y, x + 1), (y + 1, x + 1)}, "sides of cell (%d,%d)" % (y, x))
        else:
            # one segment addressed by doubled coordinates
            for Y in range(2 * h + 1):
                for X in range(2 * w + 1):
                    if (Y + X) % 2 == 1:
                        pts = {(Y // 2, (X - 1) // 2), (Y // 2, (X + 1) // 2)} if Y % 2 == 0 else {((Y - 1) // 2, X // 2), ((Y + 1) // 2, X // 2)}
                        ask(kind, s, fr, passed, [fr[Y, X]], pts, "segment [%d,%d]" % (Y, X))
            # two segments meeting at a lattice point; two segments at opposite corners of the frame
            for y in range(h + 1):
                for x in range(w + 1):
                    around = {}
                    for (dy, dx) in ((0, 1), (0, -1), (1, 0), (-1, 0)):
                        if 0 <= y + dy <= h and 0 <= x + dx <= w:
                            around[(y + dy, x + dx)] = fr[2 * y + dy, 2 * x + dx]
                    keys = sorted(around)
                    for i in range(len(keys)):
                        for j in range(i + 1, len(keys)):
                            ask(kind, s, fr, passed, [around[keys[i]], around[keys[j]]], {(y, x), keys[i], keys[j]}, "segments at point (%d,%d) towards %r and %r" % (y, x, keys[i], keys[j]))
            if h >= 1 and w >= 2:
                ask(kind, s, fr, passed, [fr[0, 1], fr[2 * h, 2 * w - 1]], None, "top-left and bottom-right horizontal segments")
    part.add("frames", ("loops", h, w))


def worker(shard, part):
    if shard[0] == "loops":
        run_loops(part, shard[1], shard[2])
        return
    if shard[0] == "history":
        run_history(part, shard[1])
        return
    h, w, how = shard
    run_frame(part, h, w, how)
    if (h, w) == (2, 1):
        part.sample({"frame": [h, w], "built": how, "checked": "getitem on [-2,2h+2]x[-2,2w+2], cell/vertex neighbors on [-1,h+1]x[-1,w+1], all_edges, iter, _from_grid_frame, dual, dual.dual"})


def main(tier, seed, only=None):
    top = 3 if tier == "quick" else 5
    shards = [(h, w, how) for h in range(0, top + 1) for w in range(0, top + 1) for how in ("default", "explicit", "dual-of-inner", "default+rebound", "dual-of-inner+rebound")]
    # scale family: the same complete coordinate sweep on frames with more than 256 / 4096 segments and rows wider than 32
    for (h, w) in ([(16, 17), (1, 300), (33, 2)] if tier == "quick" else [(16, 17), (1, 300), (300, 1), (33, 2), (2, 40), (45, 45), (64, 33)]):
        shards.append((h, w, "default"))
        shards.append((h, w, "dual-of-inner"))
    for K in ((10, 16, 64, 100, 256, 1000) if tier == "quick" else (8, 10, 16, 32, 64, 100, 128, 256, 512, 1000, 1024, 4096)):
        shards.append(("history", K))
    for (h, w) in ([(1, 1), (1, 2), (2, 1), (2, 2), (2, 3), (3, 2), (1, 4)] if tier == "quick" else [(1, 1), (1, 2), (2, 1), (2, 2), (2, 3), (3, 2), (1, 4), (4, 1), (3, 3), (3, 4), (4, 3), (2, 5)]):
        shards.append(("loops", h, w))
    run = harness.Run(
        PID, tier, seed, "exploration",
        "BoolGridFrame with h, w in 0..%d (plus large frames 16x17, 1x300, 33x2; thorough 45x45, 64x33), built by default, from explicit arrays, as the dual of a BoolInnerGridFrame, and with the public edge arrays replaced by the caller after the frame had been used (dual, iteration, inferred graph, loop constraints); __getitem__ at "
        "every doubled coordinate in [-2,2h+2]x[-2,2w+2]; cell_neighbors / vertex_neighbors at every coordinate in [-1,h+1]x[-1,w+1] in both call "
        "forms; all_edges, iteration, graph._from_grid_frame, dual(), dual().dual(); histories: pairs / triples of frames whose shapes collide under a packed key h*K+w for K in 10..1000 (thorough 4096), handled back to back in one process; loop constraints (single cycle aux / native / single_loop(), single path, crossable cycle / path) posted on frames up to 2x3 (thorough 3x4): the edge sets the accessors return for each cell, each segment and each pair of segments at a lattice point are imposed and must be admitted with the visited-point array forced to the geometry.  Reference model: segment = pair of lattice points -> "
        "variable id.  Non-trivial = distinct (frame, construction) fully checked." % top,
    )
    run.assumptions = ["order inside cell_neighbors / vertex_neighbors results is not judged (the property speaks of edge sets)"]
    par.run_shards(run, worker, shards, seed)
    cov = {"evaluations": run.c("evaluations"), "distinct_nontrivial": run.n("frames"), "exhaustive": True}
    return run.finish(cov)


def replay(case):
    part = harness.Partial()
    if "history" in case:
        for K in (8, 10, 16, 32, 64, 100, 128, 256, 512, 1000, 1024, 4096):
            run_history(part, K)
        mine = [v for v in part.violations if v.case.get("history") == case["history"] and v.case.get("frame") == case["frame"]]
        return (not mine), (mine[0].detail if mine else "agrees")
    if "constraint" in case:
        run_loops(part, case["frame"][0], case["frame"][1])
        mine = [v for v in part.violations if v.case.get("constraint") == case["constraint"] and v.case.get("what") == case.get("what")]
        return (not mine), (mine[0].detail if mine else "agrees")
    run_frame(part, case["frame"][0], case["frame"][1], case["built"])
    mine = [v for v in part.violations if all(v.case.get(k) == case.get(k) for k in ("at", "form"))]
    return (not mine), (mine[0].detail if mine else "agrees")
