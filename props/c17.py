"""C17 — decoding arbitrary text never crashes and only yields re-encodable problems.

E1 over strings: ALL strings up to a length bound over one representative per
character class the decoders distinguish, for every puzzle codec and a family
of library combinator terms, under every declared (w, h) in {0..3}^2; plus the
URL level (scheme / host / path / puzzle name / dimension / body classes) and a
deterministic scale family (one-room boards up to 64x64).  Oracle: the outcome
is None, ValueError, or a problem of the declared dimensions, never another
exception; a returned problem serializes and decodes back to itself.
"""

import itertools

from mc import harness, par
from mc import serterms as S

PID = "C17"
ALPHABET = ["0", "1", "9", "a", "f", "g", "z", ".", "-", "+", "_", "A", " ", "/", "٣", "²"]
ALLOWED = (ValueError,)


def codecs():
    """name -> (combinator, kind) ; kind drives the dimension check."""
    from cspuz import problem_serializer as ps
    from cspuz.puzzle import heyawake, lits, masyu, norinori, nurikabe, nurimisaki, slitherlink, sudoku, yajilin

    out = {
        "nurikabe": (nurikabe.NURIKABE_COMBINATOR, "grid"),
        "masyu": (masyu.MASYU_COMBINATOR, "grid"),
        "slitherlink": (slitherlink.SLITHERLINK_COMBINATOR, "grid"),
        "sudoku": (sudoku.SUDOKU_COMBINATOR, "grid"),
        "nurimisaki": (nurimisaki.NURIMISAKI_COMBINATOR, "grid"),
        "yajilin": (yajilin.YAJILIN_COMBINATOR, "grid"),
        "heyawake": (heyawake.HEYAWAKE_COMBINATOR, "valued-rooms"),
        "lits": (lits.LITS_COMBINATOR, "rooms"),
        "norinori": (norinori.NORINORI_COMBINATOR, "rooms"),
        "rooms-lenient": (ps.Rooms(skip_on_error=True, allow_redundant_border=True), "rooms"),
    }
    hexdot = S.TOneOf(S.TDict([-1], ["."]), S.THexInt())
    lib = [
        S.TGrid(S.THexInt()), S.TGrid(S.TDecInt()), S.TSeq(S.THexInt(), 2), S.TSeq(S.TDecInt(), 1),
        S.TGrid(S.TOneOf(S.TSpaces(0, "a"), S.TMultiDigit(2, 3))), S.TGrid(S.TIntSpaces(-1, 8, 3)),
        S.TTupl(S.TSeq(S.THexInt(), 1), S.TFixStr("/"), S.TGrid(hexdot)), S.TTupl(S.TGrid(S.TMultiDigit(6, 2)), S.TSeq(S.TDict([7, 8], ["_", "A"]), 2)),
        S.TValuedRooms(S.TDecInt()), S.TTupl(S.TRooms(), S.TGrid(hexdot)), S.TGrid(S.TDict([1, 2], ["-", "+f"])),
        S.TGrid(S.TOneOf(S.TDict([7], ["."]), S.TSpaces(0, "0"))), S.TGrid(S.TOneOf(S.TSpaces(-1, "k"), S.THexInt())),
        S.TValuedRooms(S.TOneOf(S.TSpaces(0, "g"), S.THexInt())),
    ]
    for t in lib:
        out["lib:" + t.name] = (t.build(), "valued-rooms" if t.name.startswith("ValuedRooms") else "any")
    return out


def dims_ok(kind, p, h, w):
    try:
        if kind == "grid":
            return isinstance(p, list) and len(p) == h and all(isinstance(r, list) and len(r) == w for r in p)
        if kind == "rooms":
            cells = sorted(c for r in p for c in r)
            return cells == [(y, x) for y in range(h) for x in range(w)]
        if kind == "valued-rooms":
            rooms, vals = p
            cells = sorted(c for r in rooms for c in r)
            return cells == [(y, x) for y in range(h) for x in range(w)] and len(vals) == len(rooms)
    except Exception:
        return False
    return True


def canon(kind, p):
    if kind == "rooms":
        return sorted(sorted(map(tuple, r)) for r in p)
    if kind == "valued-rooms":
        rooms, vals = p
        return sorted(zip([sorted(map(tuple, r)) for r in rooms], vals))
    return p


def judge_decode(part, cname, comb, kind, text, h, w):
    from cspuz import problem_serializer as ps

    part.count("evaluations")
    case = {"codec": cname, "text": text, "height": h, "width": w}
    try:
        p = ps.deserialize_problem(comb, text, height=h, width=w)
    except ALLOWED:
        part.outcome("ValueError")
        return
    except RecursionError as e:
        part.violation("%s:decode-raises-RecursionError" % cname, case, {"exception": "RecursionError"})
        return
    except Exception as e:
        part.violation("%s:decode-raises-%s" % (cname, type(e).__name__), case, {"exception": repr(e)[:200]})
        return
    if p is None:
        part.outcome("None")
        return
    part.outcome("problem")
    if not dims_ok(kind, p, h, w):
        part.violation("%s:decoded-problem-has-wrong-dimensions" % cname, case, {"problem": repr(p)[:200]})
        return
    try:
        text2 = ps.serialize_problem(comb, p, height=h, width=w)
    except Exception as e:
        part.violation("%s:decoded-problem-not-serializable-%s" % (cname, type(e).__name__), case, {"problem": repr(p)[:200], "exception": repr(e)[:200]})
        return
    try:
        p2 = ps.deserialize_problem(comb, text2, height=h, width=w)
    except Exception as e:
        part.violation("%s:canonical-text-decode-raises-%s" % (cname, type(e).__name__), case, {"canonical": text2, "exception": repr(e)[:200]})
        return
    if p2 is None or canon(kind, p2) != canon(kind, p):
        part.violation("%s:canonical-text-decodes-differently" % cname, case, {"problem": repr(p)[:200], "canonical": text2, "again": repr(p2)[:200]})
        return
    part.add("nontrivial", (cname, h, w, text))


def strings(maxlen, lo=0):
    for n in range(lo, maxlen + 1):
        for t in itertools.product(ALPHABET, repeat=n):
            yield "".join(t)


_CODECS = None


def get_codecs():
    global _CODECS
    if _CODECS is None:
        _CODECS = codecs()
    return _CODECS


def run_bodies(part, cname, h, w, lo, hi, first):
    comb, kind = get_codecs()[cname]
    for n in range(lo, hi + 1):
        if first is None:
            for t in itertools.product(ALPHABET, repeat=n):
                judge_decode(part, cname, comb, kind, "".join(t), h, w)
        else:
            if n == 0:
                continue
            for t in itertools.product(ALPHABET, repeat=n - 1):
                judge_decode(part, cname, comb, kind, first + "".join(t), h, w)


# -------------------------------------------------------------------- URL level
def url_cases():
    schemes = ["https://", "http://", "", "ftp://"]
    hosts = ["puzz.link", "", "pzv.jp"]
    paths = ["/p?", "/p.html?", "/q?", "?"]
    dims = [("2", "2"), ("", "2"), ("٢", "2"), ("-1", "2"), ("99999999999999999999", "1"), ("0", "0"), ("2", "x"), ("3", "1")]
    for sc, ho, pa, (dw, dh) in itertools.product(schemes, hosts, paths, dims):
        yield sc, ho, pa, dw, dh


URL_PUZZLES = {
    # codec: (module, decode fn, names to try, bodies (valid for 2x2, empty, garbage, short))
    "nurikabe": ("nurikabe", "deserialize_nurikabe", ["nurikabe", "nurikabe2", ""], ["j", "", "1g2", "!!", "-", "--f1h"]),
    "masyu": ("masyu", "deserialize_masyu", ["masyu", "mashu", "x"], ["00", "", "zz", "0"]),
    "slitherlink": ("slitherlink", "deserialize_slitherlink", ["slither", "slitherlink"], ["j", "", "5g", "."]),
    "sudoku": ("sudoku", "deserialize_sudoku", ["sudoku", "Sudoku"], ["j", "", "1234", "+12"]),
    "nurimisaki": ("nurimisaki", "deserialize_nurimisaki", ["nurimisaki", "n"], ["j", "", ".g2g", "+"]),
    "yajilin": ("yajilin", "deserialize_yajilin", ["yajilin", "yajirin"], ["d", "", "11c", "1", "0", "71", "7"]),
    "heyawake": ("heyawake", "deserialize_heyawake", ["heyawake", "h"], ["00g", "", "vv", "0", "80-10"]),
    "lits": ("lits", "deserialize_lits", ["lits", "x"], ["00", "", "vv", "0"]),
    "norinori": ("norinori", "deserialize_norinori", ["norinori", "x"], ["00", "", "vv", "8"]),
}


def classify_url_result(kind, res, h, w, returns_size):
    """None or ('ok' | 'bad', problem)"""
    if res is None:
        return None
    if returns_size:
        if not (isinstance(res, tuple) and len(res) == 3):
            return ("bad", res)
        hh, ww, p = res
        if hh != h or ww != w:
            return ("bad", res)
    else:
        p = res
    return ("ok" if dims_ok(kind, p, h, w) else "bad", p)


def run_urls(part, cname):
    import importlib

    from cspuz import problem_serializer as ps

    modname, fn, names, bodies = URL_PUZZLES[cname]
    m = importlib.import_module("cspuz.puzzle." + modname)
    decode = getattr(m, fn)
    comb, kind = get_codecs()[cname]
    returns_size = cname in ("heyawake", "lits", "norinori")
    for sc, ho, pa, dw, dh in url_cases():
        for name in names:
            for body in bodies:
                url = "%s%s%s%s/%s/%s/%s" % (sc, ho, pa, name, dw, dh, body)
                for api in ("module", "generic", "generic-allow-failure", "info"):
                    part.count("evaluations")
                    case = {"codec": cname, "url": url, "api": api}
                    try:
                        if api == "module":
                            res = decode(url)
                        elif api == "generic":
                            res = ps.deserialize_problem_as_url(comb, url, return_size=True)
                        elif api == "generic-allow-failure":
                            res = ps.deserialize_problem_as_url(comb, url, allowed_puzzles=[names[0]], allow_failure=True, return_size=True)
                        else:
                            res = ps.get_puzzle_info_from_url(url)
                    except ALLOWED:
                        part.outcome("url:ValueError")
                        continue
                    except Exception as e:
                        part.violation("%s:url-%s-raises-%s" % (cname, api, type(e).__name__), case, {"exception": repr(e)[:200]})
                        continue
                    if res is None:
                        part.outcome("url:None")
                        continue
                    part.outcome("url:result")
                    if api == "info":
                        ok = isinstance(res, tuple) and len(res) == 3 and res[0] == name
                        try:
                            ok = ok and res[1] == int(dh) and res[2] == int(dw)
                        except ValueError:
                            ok = False
                        if not ok:
                            part.violation("%s:url-info-wrong" % cname, case, {"result": repr(res)})
                        continue
                    try:
                        h, w = int(dh), int(dw)
                    except ValueError:
                        part.violation("%s:url-result-for-non-numeric-dimensions" % cname, case, {"result": repr(res)[:200]})
                        continue
                    cls = classify_url_result(kind, res, h, w, returns_size or api != "module")
                    if cls[0] == "bad":
                        part.violation("%s:url-problem-has-wrong-dimensions" % cname, case, {"result": repr(res)[:200]})
                        continue
                    p = cls[1]
                    try:
                        t2 = ps.serialize_problem(comb, p, height=h, width=w)
                        p2 = ps.deserialize_problem(comb, t2, height=h, width=w)
                        if canon(kind, p2) != canon(kind, p):
                            part.violation("%s:url-problem-not-stable" % cname, case, {"canonical": t2})
                        else:
                            part.add("nontrivial", (cname, url, api))
                    except Exception as e:
                        part.violation("%s:url-problem-not-serializable-%s" % (cname, type(e).__name__), case, {"problem": repr(p)[:200], "exception": repr(e)[:200]})
    # compass legacy parser: only well-formed compass URLs are in its contract; judged: no non-ValueError exception on our URL menu
    if cname == "nurikabe":
        from cspuz.puzzle import compass

        for url in ("https://puzz.link/p?compass/2/2/j", "https://puzz.link/p?compass/3/2/g1.23h", "https://puzz.link/p?compass/2/3/-10-11..k",
                    "https://puzz.link/p?compass/1/1/....", "https://puzz.link/p?compass/2/2/"):
            part.count("evaluations")
            try:
                r = compass.parse_puzz_link_url(url)
                w_, h_ = int(url.split("/")[-3]), int(url.split("/")[-2])
                if r[0] != h_ or r[1] != w_:
                    part.violation("compass:url-dimensions", {"url": url}, {"result": repr(r)})
            except ALLOWED:
                pass
            except Exception as e:
                part.violation("compass:url-raises-%s" % type(e).__name__, {"url": url}, {"exception": repr(e)[:200]})


def run_scale(part, n):
    """One-room boards n x n: the all-'0' body of exactly the required length."""
    for cname in ("lits", "norinori", "heyawake", "rooms-lenient"):
        comb, kind = get_codecs()[cname]
        nchar = (n * (n - 1) + 4) // 5 * 2
        text = "0" * nchar + ("0" if cname == "heyawake" else "")
        judge_decode(part, cname, comb, kind, text, n, n)
        # a board cut into n horizontal stripes: every horizontal border set
        bits_v = "0" * ((n * (n - 1) + 4) // 5)
        nb = (n - 1) * n
        full, rem = divmod(nb, 5)
        hb = "v" * full + ("" if rem == 0 else "0123456789abcdefghijklmnopqrstuv"[(2 ** rem - 1) << (5 - rem)])
        text = bits_v + hb + ("0" * n if cname == "heyawake" else "")
        judge_decode(part, cname, comb, kind, text, n, n)


def long_problem(cname):
    """(h, w, problem) whose canonical body is longer than 256 characters."""
    if cname in ("nurikabe", "sudoku", "nurimisaki"):
        h = w = 20
        return h, w, [[(1 + (x + y) % 9) if (x + 3 * y) % 4 else {"nurikabe": 0, "sudoku": 0, "nurimisaki": -1}[cname] for x in range(w)] for y in range(h)]
    if cname == "slitherlink":
        h = w = 20
        return h, w, [[(x + y) % 4 if (x * 7 + y) % 3 else -1 for x in range(w)] for y in range(h)]
    if cname == "masyu":
        h = w = 30
        return h, w, [[(x + 2 * y) % 3 for x in range(w)] for y in range(h)]
    if cname == "yajilin":
        h = w = 16
        return h, w, [[["^1", "v0", "<2", "..", ">17", "??"][(x + 5 * y) % 6] for x in range(w)] for y in range(h)]
    if cname in ("lits", "norinori", "rooms-lenient"):
        h = w = 28
        return h, w, [[(y, x)] for y in range(h) for x in range(w)]
    if cname == "heyawake":
        h = w = 18
        rooms = [[(y, x)] for y in range(h) for x in range(w)]
        return h, w, (rooms, [(-1 if (k % 5 == 0) else k % 3) for k in range(len(rooms))])
    return None


def run_long(part, cname):
    from cspuz import problem_serializer as ps

    comb, kind = get_codecs()[cname]
    lp = long_problem(cname)
    if lp is None:
        return
    h, w, prob = lp
    try:
        text = ps.serialize_problem(comb, prob, height=h, width=w)
    except Exception as e:
        part.violation("%s:long-problem-not-serializable-%s" % (cname, type(e).__name__), {"codec": cname, "height": h, "width": w, "text": "<long problem>"}, {"exception": repr(e)[:200]})
        return
    L = len(text)
    part.maxi("long_body_length", L)
    cuts = sorted(set([0, 1, 2, 127, 128, 129, 254, 255, 256, 257, 258, 259, 260, L - 3, L - 2, L - 1, L]) & set(range(0, L + 1)))
    for cut in cuts:
        judge_decode(part, cname, comb, kind, text[:cut], h, w)
    for tail in ("z", "-", "+1", "/", "٣"):
        judge_decode(part, cname, comb, kind, text + tail, h, w)
        judge_decode(part, cname, comb, kind, text[:257] + tail, h, w)
    part.add("long", (cname, L))


B36 = "0123456789abcdefghijklmnopqrstuvwxyz"
RUN_SIDES = [1, 2, 3, 4, 5, 6, 8, 9, 12]


def run_runs(part, cname, h, sides):
    """Sparse boards of many sizes: every text c*k (one base-36 character repeated, k <= 12) and c*k + d under every
    declared board with sides from `sides`: run-length tokens reach their 1-character limit and board areas land on
    every multiple of every run length, which the short-string enumeration cannot."""
    comb, kind = get_codecs()[cname]
    for w in sides:
        for c in B36 + ".-":
            for k in range(1, 13):
                judge_decode(part, cname, comb, kind, c * k, h, w)
                if k <= 3:
                    for d in "0az.":
                        judge_decode(part, cname, comb, kind, c * k + d, h, w)


def mid_problems(cname):
    """(h, w, problem) on mid-sized non-square boards with distinct values in distinct places."""
    out = []
    for h, w in ((2, 4), (4, 2), (3, 6), (6, 3), (2, 5), (4, 7), (5, 3)):
        cells = [(y, x) for y in range(h) for x in range(w)]
        if cname in ("nurikabe", "sudoku", "nurimisaki", "slitherlink", "masyu"):
            blank = {"nurikabe": 0, "sudoku": 0, "nurimisaki": -1, "slitherlink": -1, "masyu": 0}[cname]
            top = {"nurikabe": 40, "sudoku": 9, "nurimisaki": 20, "slitherlink": 3, "masyu": 2}[cname]
            for mode in range(3):
                out.append((h, w, [[(1 + (y * w + x) % top) if (y * w + x + mode) % 3 == 0 else blank for x in range(w)] for y in range(h)]))
            out.append((h, w, [[blank] * w for _ in range(h)]))
        elif cname == "yajilin":
            toks = ["^1", "..", "v0", "<2", "..", "..", ">11", "??", ".."]
            for mode in range(2):
                out.append((h, w, [[toks[(y * w + x + mode) % len(toks)] for x in range(w)] for y in range(h)]))
        elif cname in ("lits", "norinori", "rooms-lenient", "heyawake") or (cname.startswith("lib:ValuedRooms") and "DecInt" not in cname):
            # (ValuedRooms(DecInt) is left out: consecutive decimal values are not self-delimiting, see DESIGN 7.2 C15)
            parts = []
            parts.append([[(y, x) for y in range(h)] for x in range(w)])  # columns
            parts.append([[(y, x) for x in range(w)] for y in range(h)])  # rows
            parts.append([[c] for c in cells])  # cells
            blocks = {}
            for (y, x) in cells:
                blocks.setdefault((y // 2, x // 2), []).append((y, x))
            parts.append(list(blocks.values()))  # 2x2 blocks
            stair = {}
            for (y, x) in cells:
                stair.setdefault(min(x + (y % 2), w - 1) // 2, []).append((y, x))
            if all(_connected(b) for b in stair.values()):
                parts.append(list(stair.values()))
            for rooms in parts:
                if cname.startswith("lib:ValuedRooms"):
                    out.append((h, w, (rooms, [1 + k % 9 for k in range(len(rooms))])))
                    out.append((h, w, (rooms[1:] + rooms[:1], [(3 * k) % 14 + 1 for k in range(len(rooms))])))
                elif cname == "heyawake":
                    out.append((h, w, (rooms, [k % 10 for k in range(len(rooms))])))
                    out.append((h, w, (list(reversed(rooms)), [(-1 if k % 3 == 0 else k % 7) for k in range(len(rooms))])))
                    rot = rooms[1:] + rooms[:1]
                    out.append((h, w, (rot, [len(rooms) - k for k in range(len(rooms))])))
                else:
                    out.append((h, w, rooms))
    return out


def _connected(cells):
    cells = set(cells)
    seen = set()
    todo = [next(iter(cells))]
    while todo:
        y, x = todo.pop()
        if (y, x) in seen:
            continue
        seen.add((y, x))
        for q in ((y + 1, x), (y - 1, x), (y, x + 1), (y, x - 1)):
            if q in cells:
                todo.append(q)
    return seen == cells


def poison_shared_results(part):
    """What a hand-written decoder may legitimately do: read single characters through bare item combinators and change
    the returned lists in place.  Nothing a later decode returns may depend on that."""
    from cspuz import problem_serializer as ps

    env = ps.CombinatorEnv(height=1, width=1)
    combs = [ps.MultiDigit(2, 5), ps.MultiDigit(3, 3), ps.MultiDigit(2, 4), ps.MultiDigit(6, 2), ps.HexInt(), ps.DecInt(), ps.Spaces(0, "g"), ps.Dict([1, 2], ["a", "b"]), ps.IntSpaces(-1, 4, 2)]
    for comb in combs:
        for ch in B36:
            try:
                r = comb.deserialize(env, ch, 0)
            except Exception:
                continue
            if r is not None and isinstance(r[1], list):
                lst = r[1]
                lst.reverse()
                lst.extend([1, 1, 1])
    part.count("evaluations")


def run_cross(part, first, second):
    """Two codecs in one process: everything `first` can do on the mid-sized boards happens before `second` is judged
    (codecs that share a combinator class must not share what they remember)."""
    run_mid(harness.Partial(), first)
    run_mid(part, second)
    part.add("mid", ("after", first, second))


def run_mid(part, cname):
    """Texts of mid-sized boards: the library's own encoding of structured problems (an arbitrary string like any other;
    judged by the same oracle), every prefix, and every single-character substitution by 4 characters."""
    from cspuz import problem_serializer as ps

    comb, kind = get_codecs()[cname]
    for h, w, prob in mid_problems(cname):
        try:
            text = ps.serialize_problem(comb, prob, height=h, width=w)
        except Exception as e:
            part.violation("%s:mid-problem-not-serializable-%s" % (cname, type(e).__name__), {"codec": cname, "height": h, "width": w, "text": repr(prob)[:150]}, {"exception": repr(e)[:200]})
            continue
        # the decoded problem must also be the one that was encoded (the encoder is part of the round trip the property states)
        part.count("evaluations")
        try:
            back = ps.deserialize_problem(comb, text, height=h, width=w)
        except Exception as e:
            back = e
        if isinstance(back, Exception) or back is None or canon(kind, back) != canon(kind, prob):
            part.violation("%s:mid-problem-does-not-round-trip" % cname, {"codec": cname, "height": h, "width": w, "text": text}, {"problem": repr(prob)[:200], "decoded": repr(back)[:200]})
        judge_decode(part, cname, comb, kind, text, h, w)
        judge_decode(part, cname, comb, kind, text, w, h)
        for cut in range(len(text)):
            judge_decode(part, cname, comb, kind, text[:cut], h, w)
        for pos in range(len(text)):
            for c in "0g.z":
                if text[pos] != c:
                    judge_decode(part, cname, comb, kind, text[:pos] + c + text[pos + 1 :], h, w)
        part.add("mid", (cname, h, w, text))


def worker(shard, part):
    what = shard[0]
    if what == "runs":
        run_runs(part, shard[1], shard[2], shard[3])
        return
    if what == "mid":
        poison_shared_results(part)
        run_mid(part, shard[1])
        return
    if what == "cross":
        run_cross(part, shard[1], shard[2])
        return
    if what == "long":
        run_long(part, shard[1])
        return
    if what == "bodies":
        _, cname, h, w, lo, hi, first = shard
        run_bodies(part, cname, h, w, lo, hi, first)
        if first in (None, "0") and (h, w) == (2, 2):
            part.sample({"codec": cname, "declared": [h, w], "strings": "all over %r of length %d..%d%s" % ("".join(ALPHABET), lo, hi, "" if first is None else " starting with " + first)})
    elif what == "urls":
        run_urls(part, shard[1])
    elif what == "scale":
        run_scale(part, shard[1])


def main(tier, seed, only=None):
    cs = get_codecs()
    shards = []
    small = [(h, w) for h in range(0, 4) for w in range(0, 4)]
    core = [(1, 1), (1, 2), (2, 1), (2, 2)]
    for cname in cs:
        for (h, w) in small:
            shards.append(("bodies", cname, h, w, 0, 3, None))
        l4 = core if tier == "quick" else small
        for (h, w) in l4:
            for first in ALPHABET:
                shards.append(("bodies", cname, h, w, 4, 4, first))
        if tier != "quick":
            for (h, w) in core:
                for first in ALPHABET:
                    shards.append(("bodies", cname, h, w, 5, 5, first))
    for cname in URL_PUZZLES:
        shards.append(("urls", cname))
    for n in (10, 20, 32, 40, 64):
        shards.append(("scale", n))
    for cname in cs:
        shards.append(("long", cname))
        shards.append(("mid", cname))
        sides = RUN_SIDES if tier == "quick" else RUN_SIDES + [7, 10, 11, 16, 18]
        for a in sides:
            shards.append(("runs", cname, a, tuple(sides)))
    roomy = [c for c in cs if c in ("heyawake", "lits", "norinori", "rooms-lenient") or "Rooms" in c]
    for a in roomy:
        for b in roomy:
            if a != b:
                shards.append(("cross", a, b))
    if only:
        shards = [s for s in shards if s[0] == only or (len(s) > 1 and s[1] == only)]
    run = harness.Run(
        PID, tier, seed, "exploration",
        "alphabet = one representative per character class the decoders distinguish: %r (16 symbols incl. an Arabic-Indic digit and a "
        "superscript two).  Bodies: for each of %d codecs (9 puzzle codecs, lenient Rooms, 14 library combinator terms) ALL strings of length "
        "<= 3 under every declared (h, w) in {0..3}^2 and ALL strings of length 4 under %s%s.  URL level: 4 schemes x 3 hosts x 4 paths x 8 "
        "dimension spellings x puzzle names (right/alias/wrong) x body classes through the module decoders, deserialize_problem_as_url "
        "(allow_failure off/on) and get_puzzle_info_from_url.  Scale family: one-room and striped n x n boards for n in 10,20,32,40,64; for every puzzle codec a canonical body longer than 256 "
        "characters (boards 16x16 .. 30x30) cut at 0,1,2,127..129,254..260 and at its end, and extended by garbage.  Runs: every text of one base-36 character (or . -) repeated 1..12 times, "
        "also followed by one of 0 a z ., under every declared board with sides in {1,2,3,4,5,6,8,9,12} (thorough also 7,10,11,16,18).  Mid-sized boards (2x4 .. 4x7, both orientations): the encodings of structured problems "
        "(distinct values in distinct places; rooms as rows / columns / cells / blocks / stairs in several list orders), each of their prefixes and all single-character substitutions by 0 g . z; before that the lists returned by bare item combinators for every character are changed in place (as an accumulating hand-written decoder does), and every ordered pair of room-based codecs is run back to back in one process.  "
        "Non-trivial = distinct inputs that decoded to a problem (checked for dimensions and stable re-encoding)."
        % ("".join(ALPHABET), len(cs), "(h, w) in {1,2}^2" if tier == "quick" else "every (h, w)", "" if tier == "quick" else " and length 5 under (h, w) in {1,2}^2"),
    )
    run.assumptions = [
        "allowed outcomes exactly as the property states: None, ValueError, or a problem of the declared dimensions",
        "re-encoding is done through serialize_problem with the declared dimensions (module wrappers infer dimensions from the problem and are "
        "not defined for boards with a zero dimension)",
        "trailing characters after a complete body are tolerated by the decoders and are not judged",
    ]
    par.run_shards(run, worker, shards, seed)
    cov = {"evaluations": run.c("evaluations"), "distinct_nontrivial": run.n("nontrivial"), "codecs": len(cs), "exhaustive": True}
    return run.finish(cov)


def replay(case):
    part = harness.Partial()
    if "url" in case:
        run_urls(part, case["codec"] if case["codec"] in URL_PUZZLES else "nurikabe")
        mine = [v for v in part.violations if v.case.get("url") == case["url"] and v.case.get("api") == case.get("api")]
    else:
        comb, kind = get_codecs()[case["codec"]]
        judge_decode(part, case["codec"], comb, kind, case["text"], case["height"], case["width"])
        mine = part.violations
    return (not mine), (mine[0].detail if mine else "within the allowed outcomes")
