"""C12 — array operators and aggregate helpers have pointwise / mathematical meaning.

E1 with R-expr as value oracle: every operator form (dunder, reflected, then,
cond in method and function form) x every operand-kind combination x every
small shape; every produced element is evaluated under ALL assignments of the
underlying variables and compared with the Python meaning of the operator on
the operands' values.  Ill-shaped and ill-typed uses must raise.  Aggregate
helpers over every nesting of <= 4 leaves; conv2d and four_neighbors on every
shape <= 3x3 (4x4).
"""

import itertools
import operator

from mc import harness, par, refsem

PID = "C12"
SHAPES1 = [(0,), (1,), (2,), (3,)]
SHAPES2 = [(1, 1), (1, 3), (3, 1), (2, 2), (2, 3), (0, 2), (2, 0)]

INT_BIN = {
    "+": operator.add, "-": operator.sub, "==": operator.eq, "!=": operator.ne,
    ">=": operator.ge, ">": operator.gt, "<=": operator.le, "<": operator.lt,
}
BOOL_BIN = {"&": operator.and_, "|": operator.or_, "^": operator.xor, "==": operator.eq, "!=": operator.ne}


class Env(object):
    """Fresh solver with a pool of variables; builds operands of every kind."""

    def __init__(self):
        from cspuz import Solver

        self.s = Solver()
        self.b = [self.s.bool_var(), self.s.bool_var()]
        self.i = [self.s.int_var(-1, 1), self.s.int_var(0, 2)]
        self.vars = [self.b[0], self.i[0], self.b[1], self.i[1]]

    def size(self, shape):
        n = 1
        for d in shape:
            n *= d
        return n

    def int_cells(self, shape, flavour):
        n = self.size(shape)
        if flavour == 0:
            return [self.i[k % 2] for k in range(n)]
        if flavour == 1:
            return [self.i[(k + 1) % 2] if k % 3 else (self.i[0] + 1) for k in range(n)]
        return [(self.i[1] - self.i[0]) if k % 2 else -self.i[1] for k in range(n)]

    def bool_cells(self, shape, flavour):
        n = self.size(shape)
        if flavour == 0:
            return [self.b[k % 2] for k in range(n)]
        if flavour == 1:
            return [self.b[(k + 1) % 2] if k % 3 else ~self.b[0] for k in range(n)]
        return [(self.i[0] < self.i[1]) if k % 2 else (self.b[0] ^ self.b[1]) for k in range(n)]

    def arr(self, kind, shape, flavour):
        from cspuz.array import BoolArray1D, BoolArray2D, IntArray1D, IntArray2D

        cells = self.int_cells(shape, flavour) if kind == "int" else self.bool_cells(shape, flavour)
        if len(shape) == 1:
            return (IntArray1D if kind == "int" else BoolArray1D)(cells)
        return (IntArray2D if kind == "int" else BoolArray2D)(cells, shape)

    def scalar(self, kind, which):
        """which: 'var' | 'expr' | 'lit0' | 'lit1'"""
        from cspuz import count_true, fold_and, fold_or

        # 'cexpr0' / 'cexpr1': constant-valued *expression nodes* (what the helpers return for empty or literal-only input)
        if kind == "int":
            return {"var": self.i[1], "expr": self.i[0] + self.i[1], "lit0": 2, "lit1": -1, "cexpr0": count_true([]), "cexpr1": count_true([True, False, True])}[which]
        return {"var": self.b[1], "expr": self.b[0] | ~self.b[1], "lit0": True, "lit1": False, "cexpr0": fold_or([]), "cexpr1": fold_and([])}[which]


def val(x, env):
    return refsem.ev(x, env)


def cells_of(x, n):
    """Cell list of an operand: arrays give their data, scalars are broadcast."""
    from cspuz.array import Array1D, Array2D

    if isinstance(x, (Array1D, Array2D)):
        return list(x.data)
    return [x] * n


def check_result(part, key, case, E, res, shape, kind, operands, pyfn):
    """res must be an array of `kind` with `shape` whose element k means pyfn(*operand values at k)."""
    from cspuz.array import BoolArray1D, BoolArray2D, IntArray1D, IntArray2D

    part.count("evaluations")
    want = {("int", 1): IntArray1D, ("int", 2): IntArray2D, ("bool", 1): BoolArray1D, ("bool", 2): BoolArray2D}[(kind, len(shape))]
    if type(res) is not want or tuple(res.shape) != tuple(shape):
        part.violation(key + ":wrong-result-type-or-shape", case, {"type": type(res).__name__, "shape": repr(getattr(res, "shape", None)), "expected": want.__name__ + repr(shape)})
        return
    n = E.size(shape)
    ops = [cells_of(o, n) for o in operands]
    for env in refsem.assignments(E.vars):
        for k in range(n):
            try:
                got = val(res.data[k], env)
            except refsem.IllTyped as e:
                part.violation(key + ":ill-typed-element", case, {"element": k, "error": str(e)})
                return
            exp = pyfn(*[val(o[k], env) for o in ops])
            part.count("points")
            if got != exp or type(got) is not type(exp):
                part.violation(key + ":wrong-element-value", case, {"element": k, "assignment": {str(a): b for a, b in env.items()}, "got": got, "expected": exp})
                return
    part.add("nontrivial", (key, repr(case)))


def attempt(fn):
    try:
        return ("ok", fn())
    except Exception as e:
        return ("raises", e)


def must_raise(part, key, case, fn):
    part.count("evaluations")
    st, r = attempt(fn)
    part.outcome("rejection:" + ("raised" if st == "raises" else "accepted"))
    if st == "ok":
        part.violation(key + ":not-rejected", case, {"returned": type(r).__name__ if r is not NotImplemented else "NotImplemented"})
    else:
        part.add("nontrivial", (key, repr(case)))


def must_work(part, key, case, E, fn, shape, kind, operands, pyfn):
    st, r = attempt(fn)
    part.outcome("elementwise:" + st)
    if st == "raises":
        part.count("evaluations")
        part.violation(key + ":raises-" + type(r).__name__, case, {"exception": repr(r)[:200]})
        return
    check_result(part, key, case, E, r, shape, kind, operands, pyfn)


SCALARS = ["var", "expr", "lit0", "lit1", "cexpr0", "cexpr1"]


def run_elementwise(part, shape):
    from cspuz import cond as cond_fn
    from cspuz.constraints import then as then_fn

    dims = len(shape)
    tag = "%dd" % dims
    # ---- integer arrays -------------------------------------------------------
    for fa in range(3):
        E = Env()
        A = E.arr("int", shape, fa)
        case = {"shape": list(shape), "A": "int#%d" % fa}
        must_work(part, "neg[%s]" % tag, dict(case, op="-A"), E, lambda: -A, shape, "int", [A], operator.neg)
        for sym, f in INT_BIN.items():
            rk = "int" if sym in "+-" else "bool"
            for fb in range(3):
                B = E.arr("int", shape, fb)
                must_work(part, "int%s[%s,arr-arr]" % (sym, tag), dict(case, op=sym, B="int#%d" % fb), E, lambda: f(A, B), shape, rk, [A, B], f)
            for sc in SCALARS:
                x = E.scalar("int", sc)
                must_work(part, "int%s[%s,arr-%s]" % (sym, tag, sc), dict(case, op=sym, B=sc), E, lambda: f(A, x), shape, rk, [A, x], f)
                must_work(part, "int%s[%s,%s-arr]" % (sym, tag, sc), dict(case, op=sym, B=sc, reflected=True), E, lambda: f(x, A), shape, rk, [x, A], f)
    # ---- boolean arrays -------------------------------------------------------
    imp = lambda a, b: (not a) or b  # noqa: E731
    ite = lambda c, t, f: t if c else f  # noqa: E731
    for fa in range(3):
        E = Env()
        A = E.arr("bool", shape, fa)
        case = {"shape": list(shape), "A": "bool#%d" % fa}
        must_work(part, "not[%s]" % tag, dict(case, op="~A"), E, lambda: ~A, shape, "bool", [A], operator.not_)
        for sym, f in BOOL_BIN.items():
            for fb in range(3):
                B = E.arr("bool", shape, fb)
                must_work(part, "bool%s[%s,arr-arr]" % (sym, tag), dict(case, op=sym, B="bool#%d" % fb), E, lambda: f(A, B), shape, "bool", [A, B], f)
            for sc in SCALARS:
                x = E.scalar("bool", sc)
                must_work(part, "bool%s[%s,arr-%s]" % (sym, tag, sc), dict(case, op=sym, B=sc), E, lambda: f(A, x), shape, "bool", [A, x], f)
                if sym in "&|^" or sc in ("var", "expr"):
                    # literal == array / literal != array fall back to Python's own comparison protocol (reflected __eq__),
                    # which still reaches the array's __eq__; included for expressions, and for literals too
                    pass
                must_work(part, "bool%s[%s,%s-arr]" % (sym, tag, sc), dict(case, op=sym, B=sc, reflected=True), E, lambda: f(x, A), shape, "bool", [x, A], f)
        # then: array.then(array|scalar), then(x, y) function with either side an array, scalar.then(array)
        for fb in range(3):
            B = E.arr("bool", shape, fb)
            must_work(part, "then[%s,arr.then(arr)]" % tag, dict(case, op="then", B="bool#%d" % fb), E, lambda: A.then(B), shape, "bool", [A, B], imp)
            must_work(part, "then[%s,fn(arr,arr)]" % tag, dict(case, op="then_fn", B="bool#%d" % fb), E, lambda: then_fn(A, B), shape, "bool", [A, B], imp)
        for sc in SCALARS:
            x = E.scalar("bool", sc)
            must_work(part, "then[%s,arr.then(%s)]" % (tag, sc), dict(case, op="then", B=sc), E, lambda: A.then(x), shape, "bool", [A, x], imp)
            must_work(part, "then[%s,fn(arr,%s)]" % (tag, sc), dict(case, op="then_fn", B=sc), E, lambda: then_fn(A, x), shape, "bool", [A, x], imp)
            must_work(part, "then[%s,fn(%s,arr)]" % (tag, sc), dict(case, op="then_fn", B=sc, reflected=True), E, lambda: then_fn(x, A), shape, "bool", [x, A], imp)
            if sc in ("var", "expr", "cexpr0", "cexpr1"):
                must_work(part, "then[%s,%s.then(arr)]" % (tag, sc), dict(case, op="then", B=sc, reflected=True), E, lambda: x.then(A), shape, "bool", [x, A], imp)
        # cond: condition array / scalar x branches array / scalar
        T = E.arr("int", shape, 0)
        F = E.arr("int", shape, 1)
        branches = [("arr", T, F), ("arr-var", T, E.scalar("int", "var")), ("lit-arr", 2, F), ("expr-lit", E.scalar("int", "expr"), -1)]
        for bname, t, f in branches:
            must_work(part, "cond[%s,arr.cond(%s)]" % (tag, bname), dict(case, op="cond", branches=bname), E, lambda: A.cond(t, f), shape, "int", [A, t, f], ite)
            must_work(part, "cond[%s,fn(arr,%s)]" % (tag, bname), dict(case, op="cond_fn", branches=bname), E, lambda: cond_fn(A, t, f), shape, "int", [A, t, f], ite)
        for sc in SCALARS:
            c = E.scalar("bool", sc)
            for bname, t, f in branches[:3]:
                must_work(part, "cond[%s,fn(%s,%s)]" % (tag, sc, bname), dict(case, op="cond_fn", cond=sc, branches=bname), E, lambda: cond_fn(c, t, f), shape, "int", [c, t, f], ite)
                if sc in ("var", "expr", "cexpr0", "cexpr1"):
                    must_work(part, "cond[%s,%s.cond(%s)]" % (tag, sc, bname), dict(case, op="cond", cond=sc, branches=bname), E, lambda: c.cond(t, f), shape, "int", [c, t, f], ite)


def run_rejections(part, shape, others):
    """Shape mismatches and kind mismatches (expression / array operands) must raise."""
    from cspuz import cond as cond_fn
    from cspuz.constraints import then as then_fn

    E = Env()
    tag = "%dd" % len(shape)
    A = E.arr("int", shape, 0)
    P = E.arr("bool", shape, 0)
    case = {"shape": list(shape)}
    n = E.size(shape)
    # shape mismatch (only meaningful between arrays of the same rank but different shape, or different rank)
    for other in others:
        if tuple(other) == tuple(shape):
            continue
        A2 = E.arr("int", other, 0)
        P2 = E.arr("bool", other, 0)
        c = dict(case, other=list(other))
        for sym, f in INT_BIN.items():
            if sym in ("==", "!="):
                pass  # across shapes of the same kind: still an elementwise form, must be rejected
            must_raise(part, "shape-mismatch[int%s]" % sym, dict(c, op=sym), lambda: f(A, A2))
        for sym, f in BOOL_BIN.items():
            must_raise(part, "shape-mismatch[bool%s]" % sym, dict(c, op=sym), lambda: f(P, P2))
        must_raise(part, "shape-mismatch[then]", dict(c, op="then"), lambda: P.then(P2))
        must_raise(part, "shape-mismatch[then_fn]", dict(c, op="then_fn"), lambda: then_fn(P, P2))
        must_raise(part, "shape-mismatch[cond]", dict(c, op="cond"), lambda: P.cond(A2, 0))
        must_raise(part, "shape-mismatch[cond]", dict(c, op="cond-f"), lambda: P.cond(0, A2))
        must_raise(part, "shape-mismatch[cond_fn]", dict(c, op="cond_fn"), lambda: cond_fn(P, A, A2))
        must_raise(part, "shape-mismatch[cond_fn]", dict(c, op="cond_fn-c"), lambda: cond_fn(P2, A, A))
    # kind mismatch: boolean expression / array where an integer one is required and vice versa
    bx = [("boolvar", E.b[0]), ("boolexpr", E.b[0] & E.b[1]), ("boolarr", P)]
    ix = [("intvar", E.i[0]), ("intexpr", E.i[0] + 1), ("intarr", A)]
    for sym, f in INT_BIN.items():
        if sym in ("==", "!="):
            continue  # not judged: Python's comparison fallback makes the wording silent here
        for nm, x in bx:
            must_raise(part, "kind-mismatch[int%s,%s]" % (sym, nm), dict(case, op=sym, operand=nm), lambda: f(A, x))
            must_raise(part, "kind-mismatch[int%s,%s,reflected]" % (sym, nm), dict(case, op=sym, operand=nm, reflected=True), lambda: f(x, A))
    for nm, x in bx[:2]:
        must_raise(part, "kind-mismatch[neg,%s]" % nm, dict(case, op="neg", operand=nm), lambda: -x if nm == "boolarr" else operator.neg(x))
    for sym, f in BOOL_BIN.items():
        if sym in ("==", "!="):
            continue
        for nm, x in ix:
            must_raise(part, "kind-mismatch[bool%s,%s]" % (sym, nm), dict(case, op=sym, operand=nm), lambda: f(P, x))
            must_raise(part, "kind-mismatch[bool%s,%s,reflected]" % (sym, nm), dict(case, op=sym, operand=nm, reflected=True), lambda: f(x, P))
    for nm, x in ix:
        must_raise(part, "kind-mismatch[then,arr.then(%s)]" % nm, dict(case, op="then", operand=nm), lambda: P.then(x))
        must_raise(part, "kind-mismatch[then,fn(arr,%s)]" % nm, dict(case, op="then_fn", operand=nm), lambda: then_fn(P, x))
        must_raise(part, "kind-mismatch[then,fn(%s,arr)]" % nm, dict(case, op="then_fn", operand=nm, reflected=True), lambda: then_fn(x, P))
        must_raise(part, "kind-mismatch[cond,%s-as-condition]" % nm, dict(case, op="cond_fn", operand=nm), lambda: cond_fn(x, A, A))
    for nm, x in bx:
        must_raise(part, "kind-mismatch[cond,arr.cond(%s,int)]" % nm, dict(case, op="cond", operand=nm), lambda: P.cond(x, 1))
        must_raise(part, "kind-mismatch[cond,arr.cond(int,%s)]" % nm, dict(case, op="cond", operand=nm, pos="f"), lambda: P.cond(1, x))
        must_raise(part, "kind-mismatch[cond,fn(arr,%s,int)]" % nm, dict(case, op="cond_fn", operand=nm), lambda: cond_fn(P, x, 1))
        must_raise(part, "kind-mismatch[cond,fn(arr,arr,%s)]" % nm, dict(case, op="cond_fn", operand=nm, pos="f"), lambda: cond_fn(P, A, x))
    if n <= 1 and len(shape) == 1:
        # scalar forms of then / cond (no array involved): same typing rule
        b = E.b[0]
        for nm, x in ix[:2]:
            must_raise(part, "kind-mismatch[scalar,b.then(%s)]" % nm, dict(case, op="scalar-then", operand=nm), lambda: b.then(x))
            must_raise(part, "kind-mismatch[scalar,then(b,%s)]" % nm, dict(case, op="scalar-then_fn", operand=nm), lambda: then_fn(b, x))
            must_raise(part, "kind-mismatch[scalar,then(%s,b)]" % nm, dict(case, op="scalar-then_fn", operand=nm, reflected=True), lambda: then_fn(x, b))
            must_raise(part, "kind-mismatch[scalar,cond(%s,1,2)]" % nm, dict(case, op="scalar-cond_fn", operand=nm), lambda: cond_fn(x, 1, 2))
        for nm, x in bx[:2]:
            must_raise(part, "kind-mismatch[scalar,b.cond(%s,1)]" % nm, dict(case, op="scalar-cond", operand=nm), lambda: b.cond(x, 1))
            must_raise(part, "kind-mismatch[scalar,b.cond(1,%s)]" % nm, dict(case, op="scalar-cond", operand=nm, pos="f"), lambda: b.cond(1, x))
            must_raise(part, "kind-mismatch[scalar,cond(b,%s,1)]" % nm, dict(case, op="scalar-cond_fn", operand=nm), lambda: cond_fn(b, x, 1))
            must_raise(part, "kind-mismatch[scalar,cond(b,1,%s)]" % nm, dict(case, op="scalar-cond_fn", operand=nm, pos="f"), lambda: cond_fn(b, 1, x))


# ------------------------------------------------------------------ helpers
BOOL_LEAF = ["b0", "b1", "nb0", "T", "F", "b0|b1", "b0&b1"]
INT_LEAF = ["i0", "i1", "i0+1", "0", "2", "i0+i1"]


def leaf(E, name):
    return {"b0": E.b[0], "b1": E.b[1], "nb0": ~E.b[0], "T": True, "F": False, "i0": E.i[0], "i1": E.i[1], "i0+1": E.i[0] + 1, "0": 0, "2": 2,
            "b0|b1": E.b[0] | E.b[1], "b0&b1": E.b[0] & E.b[1], "i0+i1": E.i[0] + E.i[1]}[name]


def shape_of(x):
    """Structure of an operand as the caller built it (operator, operand structures / variable id / literal)."""
    from cspuz.expr import BoolVar, Expr, IntVar

    if isinstance(x, (BoolVar, IntVar)):
        return ("var", x.id)
    if isinstance(x, Expr):
        return (str(x.op), tuple(shape_of(o) for o in x.operands))
    return ("lit", repr(x))


def structures(E, leaves, kind):
    """Ways to present the leaf sequence to a helper: (name, args tuple)."""
    from cspuz.array import BoolArray1D, BoolArray2D, IntArray1D, IntArray2D
    from cspuz.expr import Expr

    L = list(leaves)
    n = len(L)
    out = [("varargs", tuple(L)), ("list", (list(L),)), ("tuple", (tuple(L),)), ("generator", ((x for x in L),))]
    for k in range(0, n + 1):
        out.append(("list+rest@%d" % k, (list(L[:k]),) + tuple(L[k:])))
        out.append(("lists@%d" % k, ([list(L[:k]), tuple(L[k:])],)))
        out.append(("gen-of-lists@%d" % k, ((z for z in [list(L[:k]), list(L[k:])]),)))
    A1 = BoolArray1D if kind == "bool" else IntArray1D
    A2 = BoolArray2D if kind == "bool" else IntArray2D
    for k in range(0, n + 1):
        head = L[:k]
        if all(isinstance(x, Expr) for x in head):
            out.append(("array1d@%d+rest" % k, (A1(head),) + tuple(L[k:])))
            out.append(("[array1d@%d,rest]" % k, ([A1(head), list(L[k:])],)))
            if k in (2, 4):
                out.append(("array2d@%d+rest" % k, (A2(head, (2, k // 2)),) + tuple(L[k:])))
            if k >= 1:
                out.append(("array2d(1x%d)+rest" % k, (A2(head, (1, k)),) + tuple(L[k:])))
    return out


def run_helpers(part, nleaves):
    from cspuz import alldifferent, count_true, fold_and, fold_or

    helpers = [
        ("count_true", count_true, "bool", lambda vs: sum(1 for v in vs if v)),
        ("fold_or", fold_or, "bool", lambda vs: any(vs)),
        ("fold_and", fold_and, "bool", lambda vs: all(vs)),
        ("alldifferent", alldifferent, "int", lambda vs: len(set(vs)) == len(vs)),
    ]
    for hname, h, kind, py in helpers:
        names = BOOL_LEAF if kind == "bool" else INT_LEAF
        for combo in itertools.product(names, repeat=nleaves):
            E = Env()
            L = [leaf(E, nm) for nm in combo]
            before = [shape_of(x) for x in L]
            for sname, args in structures(E, L, kind):
                case = {"helper": hname, "leaves": list(combo), "structure": sname}
                part.count("evaluations")
                st, r = attempt(lambda: h(*args))
                if [shape_of(x) for x in L] != before:
                    # the caller's own expression objects denote something else after the call
                    part.violation("helper[%s]:argument-expression-modified" % hname, case, {"before": repr(before)[:200], "after": repr([shape_of(x) for x in L])[:200]})
                    break
                if st == "raises":
                    part.violation("helper[%s]:raises-%s" % (hname, type(r).__name__), case, {"exception": repr(r)[:200]})
                    continue
                bad = None
                for env in refsem.assignments(E.vars):
                    try:
                        got = val(r, env)
                    except refsem.IllTyped as e:
                        bad = {"error": str(e)}
                        break
                    exp = py([val(x, env) for x in L])
                    part.count("points")
                    if got != exp or type(got) is not type(exp):
                        bad = {"assignment": {str(a): b for a, b in env.items()}, "got": got, "expected": exp}
                        break
                if bad:
                    part.violation("helper[%s]:wrong-value" % hname, case, bad)
                else:
                    part.add("nontrivial", ("helper", hname, combo, sname))
    # array methods
    from cspuz.array import BoolArray1D, BoolArray2D, IntArray1D, IntArray2D
    from cspuz.expr import Expr

    for combo in itertools.product(["b0", "b1", "nb0"], repeat=nleaves):
        E = Env()
        L = [leaf(E, nm) for nm in combo]
        arrs = [("BoolArray1D", BoolArray1D(L))]
        if nleaves >= 1:
            arrs.append(("BoolArray2D", BoolArray2D(L, (1, nleaves))))
        for aname, a in arrs:
            for mname, py in (("fold_or", any), ("fold_and", all), ("count_true", lambda vs: sum(1 for v in vs if v))):
                case = {"helper": aname + "." + mname, "leaves": list(combo)}
                part.count("evaluations")
                st, r = attempt(lambda: getattr(a, mname)())
                if st == "raises":
                    part.violation("helper[%s.%s]:raises-%s" % (aname, mname, type(r).__name__), case, {"exception": repr(r)[:200]})
                    continue
                for env in refsem.assignments(E.vars):
                    got = val(r, env)
                    exp = py([val(x, env) for x in L])
                    part.count("points")
                    if got != exp or type(got) is not type(exp):
                        part.violation("helper[%s.%s]:wrong-value" % (aname, mname), case, {"got": got, "expected": exp})
                        break
    for combo in itertools.product(["i0", "i1", "i0+1"], repeat=nleaves):
        E = Env()
        L = [leaf(E, nm) for nm in combo]
        arrs = [("IntArray1D", IntArray1D(L))]
        if nleaves >= 1:
            arrs.append(("IntArray2D", IntArray2D(L, (nleaves, 1))))
        for aname, a in arrs:
            case = {"helper": aname + ".alldifferent", "leaves": list(combo)}
            part.count("evaluations")
            st, r = attempt(lambda: a.alldifferent())
            if st == "raises":
                part.violation("helper[%s.alldifferent]:raises-%s" % (aname, type(r).__name__), case, {"exception": repr(r)[:200]})
                continue
            for env in refsem.assignments(E.vars):
                got = val(r, env)
                vs = [val(x, env) for x in L]
                part.count("points")
                if got != (len(set(vs)) == len(vs)):
                    part.violation("helper[%s.alldifferent]:wrong-value" % aname, case, {"got": got})
                    break


def run_conv2d(part, h, w):
    from cspuz import Solver

    for wh in range(1, 4):
        for ww in range(1, 4):
            for op in ("and", "or"):
                s = Solver()
                a = s.bool_array((h, w))
                case = {"conv2d": [h, w], "window": [wh, ww], "op": op}
                part.count("evaluations")
                # the option string as a run-time value (equal to the literal, not the same object), as a caller reading it
                # from a file or a command line would pass it
                opval = "".join(list(op)) if (wh + ww) % 2 else op
                st, r = attempt(lambda: a.conv2d(wh, ww, opval))
                if st == "raises":
                    part.violation("conv2d:raises-" + type(r).__name__, case, {"exception": repr(r)[:200]})
                    continue
                rh, rw = max(0, h - wh + 1), max(0, w - ww + 1)
                if tuple(r.shape) != (rh, rw) or len(r.data) != rh * rw:
                    part.violation("conv2d:wrong-shape", case, {"shape": repr(r.shape), "expected": [rh, rw]})
                    continue
                ids = [v.id for v in a.data]
                bad = None
                for vals in itertools.product((False, True), repeat=h * w):
                    env = dict(zip(ids, vals))
                    for y in range(rh):
                        for x in range(rw):
                            window = [vals[(y + dy) * w + (x + dx)] for dy in range(wh) for dx in range(ww)]
                            exp = all(window) if op == "and" else any(window)
                            part.count("points")
                            if val(r.data[y * rw + x], env) is not exp:
                                bad = {"cell": [y, x], "assignment": list(vals)}
                                break
                        if bad:
                            break
                    if bad:
                        break
                if bad:
                    part.violation("conv2d:wrong-value", case, bad)
                else:
                    part.add("nontrivial", ("conv2d", h, w, wh, ww, op))
    for badop in ("xor", "AND", None):
        part.count("evaluations")
        from cspuz import Solver as S2

        a = S2().bool_array((h, w))
        st, r = attempt(lambda: a.conv2d(1, 1, badop))
        if st == "ok":
            part.violation("conv2d:bad-op-accepted", {"conv2d": [h, w], "op": repr(badop)}, {})


def run_neighbors(part, h, w):
    from cspuz import Solver

    for kind in ("bool", "int"):
        s = Solver()
        a = s.bool_array((h, w)) if kind == "bool" else s.int_array((h, w), 0, 1)
        for y in range(h):
            for x in range(w):
                exp = sorted((y + dy, x + dx) for dy, dx in ((-1, 0), (1, 0), (0, -1), (0, 1)) if 0 <= y + dy < h and 0 <= x + dx < w)
                for form in ("yx", "tuple"):
                    case = {"neighbors": [h, w], "at": [y, x], "form": form, "kind": kind}
                    part.count("evaluations")
                    st, r = attempt(lambda: a.four_neighbor_indices(y, x) if form == "yx" else a.four_neighbor_indices((y, x)))
                    if st == "raises":
                        part.violation("four_neighbor_indices:raises-" + type(r).__name__, case, {"exception": repr(r)[:200]})
                    elif sorted(r) != exp or len(r) != len(exp):
                        part.violation("four_neighbor_indices:wrong", case, {"got": sorted(r), "expected": exp})
                    part.count("evaluations")
                    st, r = attempt(lambda: a.four_neighbors(y, x) if form == "yx" else a.four_neighbors((y, x)))
                    if st == "raises":
                        part.violation("four_neighbors:raises-" + type(r).__name__, case, {"exception": repr(r)[:200]})
                    else:
                        want = sorted(a.data[yy * w + xx].id for yy, xx in exp)
                        got = sorted(getattr(v, "id", -1) for v in r.data)
                        tname = "BoolArray1D" if kind == "bool" else "IntArray1D"
                        if got != want or type(r).__name__ != tname:
                            part.violation("four_neighbors:wrong", case, {"got": got, "expected": want, "type": type(r).__name__})
                        else:
                            part.add("nontrivial", ("nb", kind, h, w, y, x, form))
                    # a caller may do anything with a result: later calls (on this or another array of the same shape) must not see it
                    part.count("evaluations")
                    try:
                        r1 = a.four_neighbor_indices(y, x)
                        r1.append((77, 77))
                        if r1:
                            r1[0] = (99, 99)
                        r2 = a.four_neighbors(y, x)
                        r2.data.append(None)
                        other = (Solver().bool_array((h, w)) if kind == "bool" else Solver().int_array((h, w), 0, 1))
                        again = [sorted(a.four_neighbor_indices(y, x)), sorted(a.four_neighbor_indices((y, x))), sorted(other.four_neighbor_indices(y, x))]
                        again_el = sorted(getattr(v, "id", -1) for v in a.four_neighbors((y, x)).data)
                        if any(g != exp for g in again) or again_el != sorted(a.data[yy * w + xx].id for yy, xx in exp):
                            part.violation("four_neighbors:result-mutation-leaks-into-later-calls", case, {"later": again[0], "expected": exp})
                    except Exception as e:
                        part.violation("four_neighbors:raises-after-mutation-" + type(e).__name__, case, {"exception": repr(e)[:200]})


def run_scale(part, shape):
    """Large arrays (more than 256 cells, rows wider than 32): every operator form on distinct variables, every element
    checked under four assignments (all-low, all-high, alternating, last-cell-only)."""
    from cspuz import Solver, alldifferent, count_true, fold_and, fold_or
    from cspuz import cond as cond_fn
    from cspuz.constraints import then as then_fn

    s = Solver()
    n = 1
    for d in shape:
        n *= d
    A = s.int_array(shape, -1, 1) if len(shape) == 1 else s.int_array(tuple(shape), -1, 1)
    B = s.int_array(shape, 0, 2) if len(shape) == 1 else s.int_array(tuple(shape), 0, 2)
    P = s.bool_array(shape) if len(shape) == 1 else s.bool_array(tuple(shape))
    Q = s.bool_array(shape) if len(shape) == 1 else s.bool_array(tuple(shape))
    envs = []
    for mode in range(4):
        env = {}
        for k in range(n):
            lastonly = k == n - 1
            env[A.data[k].id] = [-1, 1, (k % 3) - 1, 1 if lastonly else 0][mode]
            env[B.data[k].id] = [0, 2, k % 3, 2 if lastonly else 1][mode]
            env[P.data[k].id] = [False, True, k % 2 == 0, lastonly][mode]
            env[Q.data[k].id] = [False, True, k % 3 == 0, not lastonly][mode]
        envs.append(env)
    imp = lambda a, b: (not a) or b  # noqa: E731
    ite = lambda c, t, f: t if c else f  # noqa: E731
    forms = [
        ("A+B", lambda: A + B, [A, B], operator.add), ("2-A", lambda: 2 - A, [2, A], operator.sub), ("-A", lambda: -A, [A], operator.neg),
        ("A<B", lambda: A < B, [A, B], operator.lt), ("A==1", lambda: A == 1, [A, 1], operator.eq), ("A!=B", lambda: A != B, [A, B], operator.ne),
        ("P&Q", lambda: P & Q, [P, Q], operator.and_), ("True^P", lambda: True ^ P, [True, P], operator.xor), ("~P", lambda: ~P, [P], operator.not_),
        ("P|Q", lambda: P | Q, [P, Q], operator.or_), ("P.then(Q)", lambda: P.then(Q), [P, Q], imp), ("then(P,False)", lambda: then_fn(P, False), [P, False], imp),
        ("P.cond(A,B)", lambda: P.cond(A, B), [P, A, B], ite), ("cond(Q,1,B)", lambda: cond_fn(Q, 1, B), [Q, 1, B], ite),
    ]
    for name, fn, ops, py in forms:
        part.count("evaluations")
        st, r = attempt(fn)
        case = {"scale": list(shape), "form": name}
        if st == "raises":
            part.violation("scale[%s]:raises-%s" % (name, type(r).__name__), case, {"exception": repr(r)[:200]})
            continue
        if tuple(r.shape) != tuple(shape) or len(r.data) != n:
            part.violation("scale[%s]:wrong-shape" % name, case, {"shape": repr(r.shape)})
            continue
        cols = [cells_of(o, n) for o in ops]
        bad = None
        for env in envs:
            for k in range(n):
                part.count("points")
                if val(r.data[k], env) != py(*[val(c[k], env) for c in cols]):
                    bad = k
                    break
            if bad is not None:
                break
        if bad is not None:
            part.violation("scale[%s]:wrong-element-value" % name, case, {"element": bad})
        else:
            part.add("nontrivial", ("scale", tuple(shape), name))
    # aggregates over all cells, nested in several ways
    aggs = [
        ("count_true(P)", lambda: count_true(P), lambda e: sum(1 for v in P.data if e[v.id])),
        ("count_true(list,P,[Q])", lambda: count_true(list(P.data[: n // 2]), P.data[n // 2 :], [Q]), lambda e: sum(1 for v in list(P.data) + list(Q.data) if e[v.id])),
        ("P.count_true()", lambda: P.count_true(), lambda e: sum(1 for v in P.data if e[v.id])),
        ("fold_or(P)", lambda: fold_or(P), lambda e: any(e[v.id] for v in P.data)),
        ("P.fold_or()", lambda: P.fold_or(), lambda e: any(e[v.id] for v in P.data)),
        ("fold_and(P,Q)", lambda: fold_and(P, (q for q in Q)), lambda e: all(e[v.id] for v in list(P.data) + list(Q.data))),
        ("alldifferent(A)", lambda: alldifferent(A), lambda e: len(set(e[v.id] for v in A.data)) == n),
    ]
    for name, fn, py in aggs:
        part.count("evaluations")
        st, r = attempt(fn)
        case = {"scale": list(shape), "form": name}
        if st == "raises":
            part.violation("scale[%s]:raises-%s" % (name, type(r).__name__), case, {"exception": repr(r)[:200]})
            continue
        for env in envs:
            part.count("points")
            if val(r, env) != py(env):
                part.violation("scale[%s]:wrong-value" % name, case, {})
                break
        else:
            part.add("nontrivial", ("scale", tuple(shape), name))
    if len(shape) == 2:
        h, w = shape
        for (wh, ww, op) in ((2, 2, "and"), (3, 3, "or"), (1, w, "or"), (h, 1, "and"), (h, w, "and"), (h + 1, 1, "or")):
            part.count("evaluations")
            case = {"scale": list(shape), "form": "conv2d(%d,%d,%s)" % (wh, ww, op)}
            st, r = attempt(lambda: P.conv2d(wh, ww, op))
            if st == "raises":
                part.violation("scale[conv2d]:raises-%s" % type(r).__name__, case, {"exception": repr(r)[:200]})
                continue
            rh, rw = max(0, h - wh + 1), max(0, w - ww + 1)
            if tuple(r.shape) != (rh, rw):
                part.violation("scale[conv2d]:wrong-shape", case, {"shape": repr(r.shape)})
                continue
            bad = False
            for env in envs:
                for y in range(rh):
                    for x in range(rw):
                        win = [env[P.data[(y + dy) * w + (x + dx)].id] for dy in range(wh) for dx in range(ww)]
                        part.count("points")
                        if val(r.data[y * rw + x], env) is not (all(win) if op == "and" else any(win)):
                            bad = True
                            break
                    if bad:
                        break
                if bad:
                    break
            if bad:
                part.violation("scale[conv2d]:wrong-value", case, {})
        for (y, x) in ((0, 0), (0, w - 1), (h - 1, 0), (h - 1, w - 1), (h // 2, w // 2), (h - 1, w // 2), (0, 33 % w)):
            part.count("evaluations")
            exp = sorted(P.data[yy * w + xx].id for yy, xx in ((y - 1, x), (y + 1, x), (y, x - 1), (y, x + 1)) if 0 <= yy < h and 0 <= xx < w)
            st, r = attempt(lambda: P.four_neighbors(y, x))
            st2, r2 = attempt(lambda: P.four_neighbor_indices((y, x)))
            if st != "ok" or sorted(v.id for v in r.data) != exp or st2 != "ok" or sorted(P.data[a * w + b].id for a, b in r2) != exp:
                part.violation("scale[four_neighbors]:wrong", {"scale": list(shape), "at": [y, x]}, {})


def run_sweep(part, lo, hi):
    """Every operand count n in [lo, hi): the aggregates over n distinct variables (1-D array, list, split into nested
    pieces) under the assignments all-false / all-true / only first / only last / alternating / all but last.  A helper
    that treats some count specially (a block size, a remainder) shows here, whatever the count is."""
    from cspuz import Solver, alldifferent, count_true, fold_and, fold_or

    for n in range(lo, hi):
        s = Solver()
        P = s.bool_array(n)
        A = s.int_array(n, 0, max(1, n))
        ids = [v.id for v in P.data]
        envs = [[False] * n, [True] * n, [k == 0 for k in range(n)], [k == n - 1 for k in range(n)], [k % 2 == 0 for k in range(n)], [k != n - 1 for k in range(n)]]
        forms = [
            ("count_true(P)", lambda: count_true(P), lambda v: sum(v)),
            ("count_true(*list)", lambda: count_true(*list(P.data)), lambda v: sum(v)),
            ("count_true(halves)", lambda: count_true(P.data[: n // 2], [P.data[n // 2 :]]), lambda v: sum(v)),
            ("P.count_true()", lambda: P.count_true(), lambda v: sum(v)),
            ("fold_or(P)", lambda: fold_or(P), lambda v: any(v)),
            ("P.fold_or()", lambda: P.fold_or(), lambda v: any(v)),
            ("fold_and(list)", lambda: fold_and(list(P.data)), lambda v: all(v)),
            ("P.fold_and()", lambda: P.fold_and(), lambda v: all(v)),
        ]
        for name, fn, py in forms:
            part.count("evaluations")
            case = {"sweep": n, "form": name}
            st, r = attempt(fn)
            if st == "raises":
                part.violation("sweep[%s]:raises-%s" % (name, type(r).__name__), case, {"exception": repr(r)[:200]})
                continue
            for vals in envs:
                part.count("points")
                got = val(r, dict(zip(ids, vals)))
                exp = py(vals)
                if got != exp or type(got) is not type(exp):
                    part.violation("sweep[%s]:wrong-value" % name, case, {"assignment": "see envs", "got": repr(got), "expected": repr(exp)})
                    break
            else:
                part.add("nontrivial", ("sweep", n, name))
        part.count("evaluations")
        st, r = attempt(lambda: alldifferent(A))
        case = {"sweep": n, "form": "alldifferent(A)"}
        if st == "raises":
            part.violation("sweep[alldifferent]:raises-%s" % type(r).__name__, case, {"exception": repr(r)[:200]})
        else:
            aid = [v.id for v in A.data]
            for vals in ([k for k in range(n)], [0] * n, [k if k != n - 1 else 0 for k in range(n)], [k if k != 0 else n - 1 for k in range(n)]):
                part.count("points")
                if val(r, dict(zip(aid, vals))) is not (len(set(vals)) == len(vals)):
                    part.violation("sweep[alldifferent]:wrong-value", case, {"values": "first/last collision patterns"})
                    break
            else:
                part.add("nontrivial", ("sweep", n, "alldifferent"))


def worker(shard, part):
    what = shard[0]
    if what == "sweep":
        run_sweep(part, shard[1], shard[2])
        return
    if what == "scale":
        run_scale(part, shard[1])
        return
    if what == "elementwise":
        run_elementwise(part, shard[1])
        part.sample({"elementwise shape": shard[1]})
    elif what == "reject":
        run_rejections(part, shard[1], shard[2])
    elif what == "helpers":
        run_helpers(part, shard[1])
        part.sample({"helpers with leaves": shard[1]})
    elif what == "conv2d":
        run_conv2d(part, shard[1], shard[2])
    elif what == "neighbors":
        run_neighbors(part, shard[1], shard[2])


def main(tier, seed, only=None):
    shards = []
    for sh in SHAPES1 + SHAPES2:
        shards.append(("elementwise", sh))
        others = [o for o in SHAPES1 + SHAPES2 if len(o) == len(sh)] + ([(2,)] if len(sh) == 2 else [(1, 2)])
        shards.append(("reject", sh, tuple(others)))
    for n in range(0, 4 if tier == "quick" else 5):
        shards.append(("helpers", n))
    top = 3 if tier == "quick" else 4
    for h in range(0, top + 1):
        for w in range(0, top + 1):
            if h * w <= 12:
                shards.append(("conv2d", h, w))
            shards.append(("neighbors", h, w))
    for sh in ([(257,), (17, 17), (2, 40), (40, 2), (4100,)] if tier == "quick" else [(257,), (300,), (17, 17), (2, 40), (40, 2), (33, 33), (1, 300), (300, 1), (4097,), (4100,), (70, 70), (8200,)]):
        shards.append(("scale", sh))
    top_n = 330 if tier == "quick" else 1300
    for lo in range(0, top_n, 30):
        shards.append(("sweep", lo, min(top_n, lo + 30)))
    if tier != "quick":
        shards.append(("sweep", 2490, 2520))
        shards.append(("sweep", 2520, 2560))
        shards.append(("sweep", 4090, 4100))
    if only:
        shards = [s for s in shards if s[0] == only]
    run = harness.Run(
        PID,
        tier,
        seed,
        "exploration",
        "shapes 1-D 0..3, 2-D (1,1),(1,3),(3,1),(2,2),(2,3),(0,2),(2,0); int ops - + == != >= > <= <, unary -, bool ops ~ & | ^ == != , then, "
        "cond (method + module function, condition/branches array or scalar) x operand kinds array(3 cell flavours: variables, "
        "mixed expressions) / scalar variable / scalar expression / literal on either side; every produced element evaluated by "
        "mc/refsem.py under all 36 assignments and compared with the Python operator on the operand values.  Rejections: every "
        "pair of different shapes, every bool-expression/array in an integer position and vice versa (arithmetic, ordering, logical, "
        "then, cond; array and scalar forms).  Helpers count_true/fold_or/fold_and/alldifferent over all leaf tuples of length <= %d "
        "from 5 leaves x ~20 nestings (varargs, list, tuple, generator, nested, 1-D/2-D arrays mixed with literals).  conv2d on all "
        "shapes <= %dx%d x windows 1..3 x 1..3 x and/or under all 2^(hw) assignments; four_neighbors / four_neighbor_indices at every "
        "coordinate in both call forms.  Scale family (not exhaustive): arrays of 257 and 4100 cells, 17x17, 2x40, 40x2 (thorough 33x33, 1x300, 70x70, 8200) over distinct "
        "variables, every operator form and aggregate checked on every element under four assignments.  Size sweep: the aggregates over n distinct variables for EVERY n in 0..329 (thorough 0..1299, 2490..2559, 4090..4099) under six assignments.  Non-trivial = distinct (form, case) whose result was fully evaluated." % (3 if tier == "quick" else 4, top, top),
    )
    run.assumptions = [
        "== / != across kinds and bare Python bool literals in integer positions are not judged (Python's comparison fallback and bool being an int make the property's wording silent)",
        "any exception type counts as rejection",
    ]
    par.run_shards(run, worker, shards, seed)
    cov = {"evaluations": run.c("evaluations"), "distinct_nontrivial": run.n("nontrivial"), "points_evaluated": run.c("points"), "exhaustive": True}
    return run.finish(cov)


def replay(case):
    part = harness.Partial()
    if "scale" in case:
        run_scale(part, tuple(case["scale"]))
        mine = [v for v in part.violations if v.case.get("form") == case.get("form") or v.case.get("at") == case.get("at")]
        return (not mine), (mine[0].detail if mine else "agrees")
    if "helper" in case:
        run_helpers(part, len(case["leaves"]))
    elif "conv2d" in case:
        run_conv2d(part, *case["conv2d"])
    elif "neighbors" in case:
        run_neighbors(part, *case["neighbors"])
    else:
        sh = tuple(case["shape"])
        run_elementwise(part, sh)
        others = [o for o in SHAPES1 + SHAPES2 if len(o) == len(sh)] + ([(2,)] if len(sh) == 2 else [(1, 2)])
        run_rejections(part, sh, others)
    mine = [v for v in part.violations if harness.jsonable(v.case) == case]
    return (not mine), (mine[0].detail if mine else "agrees")
