"""C05 — division_connected holds exactly for labelings whose classes are connected.

E1: all labelled simple graphs n<=4 (5), grids up to 6 (8) cells, num_regions
1..3 (4), ALL labelings in {0..R-1}^n, roots lists (None entries, vertex ids or
(y, x) coordinates), allow_empty_group off/on, both encodings, division given
as IntArray1D / list of IntVars / IntArray2D / integer literals.
"""

import itertools

from mc import gcheck, graphref, harness, par

PID = "C05"
_CASES = []


def oracle(n, edges, labels, R, roots, allow_empty):
    for r in range(R):
        cls = [v for v in range(n) if labels[v] == r]
        if not cls and not allow_empty:
            return False
        if not graphref.induced_connected(n, edges, cls):
            return False
    if roots is not None:
        for i, r in enumerate(roots):
            if r is not None and labels[r] != i:
                return False
    return True


def build(case, labels=None):
    from cspuz import Solver, graph
    from cspuz.array import IntArray1D

    s = Solver()
    if case.get("used"):
        gcheck.junk(s)
    R = case["R"]
    kw = {}
    if case["roots"] is not None:
        kw["roots"] = case["roots"]
    if case["allow_empty"]:
        kw["allow_empty_group"] = True
    if case.get("intflags"):  # options given as 1 / 0 instead of True / False (the encoding is chosen by the config flag here)
        kw["allow_empty_group"] = int(case["allow_empty"])
    form = case["form"]
    with gcheck.GraphConfig(use_graph_primitive=int(bool(case["prim"])) if case.get("intflags") else bool(case["prim"])):
        if form == "grid":
            h, w = case["shape"]
            if case.get("before"):
                gcheck.warm_grid(tuple(case["before"]))
            d = s.int_array((h, w), 0, R - 1)
            if case["roots"] is not None:
                kw["roots"] = [None if r is None else (r // w, r % w) for r in case["roots"]]
            graph.division_connected(s, d, R, **kw)
            return s, list(d)
        g = gcheck.make_graph(case["n"], case["edges"], case.get("grown"))
        if form == "array1d":
            d = s.int_array(case["n"], 0, R - 1)
            graph.division_connected(s, d, R, g, **kw)
            return s, list(d)
        if form == "list":
            d = s.int_array(case["n"], 0, R - 1)
            graph.division_connected(s, list(d), R, g, **kw)
            return s, list(d)
        if form == "subdomain":
            # label variables whose own domains are different sub-ranges of 0..R-1
            d = [s.int_var(lo, hi) for lo, hi in case["doms"]]
            graph.division_connected(s, IntArray1D(d) if case.get("as_array") else d, R, g, **kw)
            return s, d
        if form == "shared":
            # several vertices labelled by the very same variable object (merged cells): case["share"][v] = variable index
            groups = [s.int_var(0, R - 1) for _ in range(max(case["share"]) + 1)]
            d = [groups[k] for k in case["share"]]
            graph.division_connected(s, IntArray1D(d) if case.get("as_array") else d, R, g, **kw)
            return s, groups
        if form == "exprs":
            # labels given as compound expressions over variables with shifted domains
            xs = [s.int_var(1 + (v % 2), R + (v % 2)) for v in range(case["n"])]
            graph.division_connected(s, [x - (1 + (v % 2)) for v, x in enumerate(xs)], R, g, **kw)
            return s, xs
        if form == "literals":
            graph.division_connected(s, [int(x) for x in labels], R, g, **kw)
            return s, []
    raise ValueError(form)


def run_case(part, case, prange=None):
    if "shape" in case:
        h, w = case["shape"]
        n, edges = h * w, graphref.grid_edges(h, w)
    else:
        n, edges = case["n"], case["edges"]
    R = case["R"]
    key = "division[%s,%s,%s%s]" % (case["form"], "native" if case["prim"] else "aux", "roots" if case["roots"] is not None else "noroots", ",allow_empty" if case["allow_empty"] else "")
    if case["form"] != "literals":
        try:
            s, dvars = build(case)
        except Exception as e:
            part.violation(key + ":build-raises-" + type(e).__name__, case, {"exception": repr(e)[:300]})
            return
    total = R ** n
    lo, hi = prange if prange else (0, total)

    def all_labelings():
        for idx in range(lo, min(hi, total)):
            labels = []
            x = idx
            for _ in range(n):
                labels.append(x % R)
                x //= R
            yield labels

    for labels in (case["labelings"] if "labelings" in case else all_labelings()):
        exp = oracle(n, edges, labels, R, case["roots"], case["allow_empty"])
        if case["form"] == "literals":
            try:
                s, dvars = build(case, labels)
            except Exception as e:
                c = dict(case)
                c["pattern"] = labels
                part.violation(key + ":build-raises-" + type(e).__name__, c, {"exception": repr(e)[:300]})
                continue
            gcheck.judge(part, key, case, labels, exp, s, [])
        else:
            vals = labels
            if case["form"] == "shared":
                share = case["share"]
                if any(labels[u] != labels[v] for u in range(n) for v in range(n) if share[u] == share[v]):
                    continue  # not expressible with shared variables
                vals = [labels[share.index(k)] for k in range(max(share) + 1)]
            if case["form"] == "subdomain":
                exp = exp and all(lo <= x <= hi for x, (lo, hi) in zip(labels, case["doms"]))
            elif case["form"] == "exprs":
                vals = [x + 1 + (v % 2) for v, x in enumerate(labels)]
            gcheck.judge(part, key, case, labels, exp, s, [gcheck.fix(v, b) for v, b in zip(dvars, vals)])
    if "labelings" in case:
        part.add("scale", (n, R))
    else:
        part.add("graphs", (n, tuple(edges), R))


def scale_cases(tier):
    """Deep regions on larger boards: the serpentine corridor as one region, each leftover strip its own region."""
    from mc.rules import base as rbase

    out = []
    big = [(5, 4), (4, 5), (5, 5), (1, 12)] if tier == "quick" else [(5, 4), (4, 5), (5, 5), (6, 5), (7, 4), (1, 20), (20, 1)]
    for h, w in big:
        corridor = set(graphref.serpentine(h, w))
        rest = [c for c in ((y, x) for y in range(h) for x in range(w)) if c not in corridor]
        comps = sorted((sorted(c) for c in rbase.components(rest)), key=lambda c: c[0])
        lab = {}
        for c in corridor:
            lab[c] = 0
        for k, comp in enumerate(comps):
            for c in comp:
                lab[c] = k + 1
        R = len(comps) + 1
        good = [lab[(y, x)] for y in range(h) for x in range(w)]
        labelings = [good]
        if len(comps) >= 2:
            bad = [(1 if v == 2 else v) for v in good]  # two separated strips share a label; label 2 unused
            labelings.append(bad)
        order = graphref.serpentine_order(h, w)
        mid = order[len(order) // 2]
        cut = list(good)
        cut[mid[0] * w + mid[1]] = 1 if R > 1 else 0  # the corridor is cut in two
        labelings.append(cut)
        if R == 1:
            labelings = [good]
        for prim in (False, True):
            for allow_empty in (False, True):
                out.append({"form": "grid", "shape": [h, w], "R": R, "roots": None, "allow_empty": allow_empty, "prim": prim, "labelings": labelings})
        out.append({"form": "array1d", "n": h * w, "edges": graphref.orient(graphref.grid_edges(h, w), 3), "R": R, "roots": [order[0][0] * w + order[0][1]] + [None] * (R - 1),
                    "allow_empty": False, "prim": False, "labelings": labelings})
    # board histories: board B right after board A in the same process
    for a, b in gcheck.grid_history_pairs(tier):
        h, w = b
        cells = [(y, x) for y in range(h) for x in range(w)]
        labs = [[0 if (x < (w + 1) // 2 if w > 1 else y < (h + 1) // 2) else 1 for (y, x) in cells], [0 if (y < (h + 1) // 2 if h > 1 else x < (w + 1) // 2) else 1 for (y, x) in cells],
                [1 if c in ((0, 0), (h - 1, w - 1)) else 0 for c in cells], [0] * (h * w)]
        out.append({"form": "grid", "shape": [h, w], "R": 2, "roots": None, "allow_empty": False, "prim": False, "before": list(a), "labelings": labs})
    for n in ((300,) if tier == "quick" else (257, 258, 300, 520)):
        path = [(i, i + 1) for i in range(n - 1)]
        halves = [0 if i < n // 2 else 1 for i in range(n)]
        crossed = list(halves)
        crossed[5] = 1  # a piece of region 1 cut off by region 0
        for roots in (None, [0, n - 1], [n // 2 - 1, n // 2], [None, n - 1]):
            for allow_empty in (False, True):
                out.append({"form": "array1d", "n": n, "edges": path, "R": 2, "roots": roots, "allow_empty": allow_empty, "prim": False, "labelings": [halves, crossed, [0] * n]})
        out.append({"form": "array1d", "n": n, "edges": path, "R": 2, "roots": [0, n - 1], "allow_empty": False, "prim": True, "labelings": [halves, crossed]})
    for k in ((17,) if tier == "quick" else (17, 23)):
        halves = [0 if y < k // 2 else 1 for y in range(k) for x in range(k)]
        for roots in (None, [0, k * k - 1], [k * k - 1, 0]):
            out.append({"form": "grid", "shape": [k, k], "R": 2, "roots": roots, "allow_empty": False, "prim": False, "labelings": [halves, [1 - v for v in halves]]})
    return out


def roots_menu(n, R, full, long=False):
    out = [None]
    if full:
        for lst in itertools.product([None] + list(range(n)), repeat=R):
            out.append(list(lst))
    else:
        out.append([0] + [None] * (R - 1))
        out.append([None] * (R - 1) + [n - 1])
        if R <= n:
            out.append(list(range(R)))
            out.append(list(range(n - 1, n - 1 - R, -1)))
        # a list longer than num_regions: the extra position is a label no vertex can carry (None there changes nothing)
    if long:
        out.append([None] * R + [n - 1])
        out.append([None] * (R + 1))
    dedup = []
    for r in out:
        if r not in dedup:
            dedup.append(r)
    return dedup


def cases_for(tier):
    out = []
    maxn = 4 if tier == "quick" else 5
    maxR = 3 if tier == "quick" else 4
    for n in range(1, maxn + 1):
        for edges in graphref.simple_graphs(n):
            if n == 5 and len(edges) not in (4, 5, 6):
                continue
            for R in range(1, maxR + 1):
                if n == 5 and R > 3:
                    continue
                if n == 4 and R == 4 and len(edges) < 3:
                    continue
                for roots in roots_menu(n, R, full=(n <= 3 and R <= 2), long=(n <= 3 or (n == 4 and R == 2 and tier != "quick"))):
                    if tier == "quick" and n == 4 and R == 3 and roots is not None:
                        continue
                    for allow_empty in (False, True):
                        for prim in (False, True):
                            forms = ["array1d"]
                            if n <= 3 and roots is None:
                                forms += ["list", "literals"]
                            if n == 5 and (prim or allow_empty or roots is not None):
                                continue
                            for form in forms:
                                out.append({"form": form, "n": n, "edges": list(edges), "R": R, "roots": roots, "allow_empty": allow_empty, "prim": prim})
        if n <= 4:
            # reversed edge orientation, plain configuration
            for edges in graphref.simple_graphs(n):
                if edges:
                    out.append({"form": "array1d", "n": n, "edges": graphref.orient(edges, 1), "R": min(2, maxR), "roots": None, "allow_empty": False, "prim": False})
    for n in (2, 3):
        for edges in graphref.simple_graphs(n):
            for allow_empty in (False, True):
                for prim in (False, True):
                    out.append({"form": "array1d", "n": n, "edges": list(edges), "R": 2, "roots": None, "allow_empty": allow_empty, "prim": prim, "intflags": True})
    # label variables with heterogeneous domains inside 0..R-1, and labels given as compound expressions
    def doms_menu(n, R):
        return [
            [(0, R - 1) if v % 2 == 0 else (0, R - 2) for v in range(n)],
            [((0, R - 1), (0, R - 2), (1, R - 1))[(v + 1) % 3] for v in range(n)],
            [(0, R - 2) if v % 2 == 0 else (0, R - 1) for v in range(n)],
        ]

    for n in range(2, 5):
        for edges in graphref.simple_graphs(n):
            if n == 4 and len(edges) not in (3, 4):
                continue
            for R in (2, 3):
                if n == 4 and R == 2:
                    continue
                for prim in (False, True):
                    for k, doms in enumerate(doms_menu(n, R)):
                        if tier == "quick" and n == 4 and k == 2:
                            continue
                        if tier == "quick" and n == 4 and prim != (k == 1):
                            continue
                        for allow_empty in ((False, True) if n <= 3 else (False,)):
                            out.append({"form": "subdomain", "n": n, "edges": list(edges), "R": R, "roots": None, "allow_empty": allow_empty, "prim": prim, "doms": doms, "as_array": k == 1})
                    if n <= 3 or len(edges) == 3:
                        out.append({"form": "exprs", "n": n, "edges": list(edges), "R": R, "roots": None if n % 2 else [n - 1] + [None] * (R - 1), "allow_empty": False, "prim": prim})
    # merged cells: adjacent (and non-adjacent) vertices labelled by one and the same variable object
    for n in range(2, 5):
        for edges in graphref.simple_graphs(n):
            if not edges or (n == 4 and len(edges) not in (3, 4)):
                continue
            shares = []
            u, v = edges[0]
            shares.append([min(u, v) if x in (u, v) else x for x in range(n)])  # the two ends of the first edge
            u, v = edges[-1]
            shares.append([min(u, v) if x in (u, v) else x for x in range(n)])  # ... of the last edge
            shares.append([0 if x in (0, n - 1) else x for x in range(n)])  # first and last vertex (adjacent or not)
            shares.append([x // 2 for x in range(n)])  # consecutive pairs
            seen = []
            for sh in shares:
                ids = sorted(set(sh))
                sh = [ids.index(x) for x in sh]
                if sh in seen or len(set(sh)) == n:
                    continue
                seen.append(sh)
                for R in (2, 3):
                    for prim in (False, True):
                        if tier == "quick" and n == 4 and (R == 3) != prim:
                            continue
                        out.append({"form": "shared", "n": n, "edges": list(edges), "R": R, "roots": None if len(seen) % 2 else [None] * (R - 1) + [n - 1], "allow_empty": bool(len(seen) % 2), "prim": prim, "share": sh,
                                    "as_array": len(seen) == 2})
    for h, w in ((2, 3), (3, 2), (1, 5)):
        n = h * w
        for k, doms in enumerate(doms_menu(n, 3)[:2]):
            for prim in (False, True):
                if tier == "quick" and n == 6 and (k, prim) != ((0, False) if h == 2 else (1, True)):
                    continue
                out.append({"form": "subdomain", "n": n, "edges": graphref.grid_edges(h, w), "R": 3, "roots": None, "allow_empty": False, "prim": prim, "doms": doms})
    # structured mid-sized graphs (cycles sharing a vertex, degree-4 trees, isolated vertices, cubic graphs), all R^n labelings
    for name, n, es in graphref.zoo():
        relab = name.endswith("~relabelled")
        for R in (2, 3):
            if R ** n > (130 if tier == "quick" else 2200):
                continue
            menu = roots_menu(n, R, full=False)
            for roots in ([menu[0], menu[2 if relab else 1]] if tier == "quick" else menu):
                for allow_empty in (False, True):
                    for prim in (False, True):
                        if tier == "quick" and (prim != relab or (allow_empty and roots is not None)):
                            continue
                        out.append({"form": "array1d", "n": n, "edges": list(es), "R": R, "roots": roots, "allow_empty": allow_empty, "prim": prim, "name": name})
    maxcells = 6 if tier == "quick" else 8
    for h, w in graphref.grid_shapes(maxcells):
        n = h * w
        for R in range(1, 4):
            if R ** n > 7000:
                continue
            for roots in roots_menu(n, R, full=False, long=(n <= 4)):
                for allow_empty in (False, True):
                    for prim in (False, True):
                        if prim and roots is not None and allow_empty:
                            continue
                        if tier == "quick" and n == 6 and R == 3 and (roots is not None or (prim and allow_empty)):
                            continue
                        out.append({"form": "grid", "shape": [h, w], "R": R, "roots": roots, "allow_empty": allow_empty, "prim": prim})
    return out


def _small(c):
    """Cases cheap enough to repeat on a Solver that is already in use."""
    if "shape" in c:
        return (c["shape"][0] + 1) * (c["shape"][1] + 1) <= 9
    return c.get("n", 9) <= 3 and len(c.get("edges", ())) <= 4


def prepare(tier):
    global _CASES
    base_cases = cases_for(tier)
    used = [dict(c, used=True) for c in base_cases[:: (13 if tier == "quick" else 3)] if _small(c)]
    # Graph objects with a history: some edges added only after the object has been used by other constraints
    for c in base_cases[:: (11 if tier == "quick" else 2)]:
        if "edges" in c and "shape" not in c and 2 <= len(c["edges"]) <= 5 and c.get("n", 9) <= 4:
            used.append(dict(c, grown=1))
            used.append(dict(c, grown=len(c["edges"]) - 1))
            used.append(dict(c, grown=len(c["edges"])))  # fully built, then used - also by calls that are refused -, then used again
    _CASES = base_cases + used + scale_cases(tier)
    return _CASES


def size_of(c):
    if "labelings" in c:
        return 60 * len(c["labelings"])
    n = c["n"] if "n" in c else c["shape"][0] * c["shape"][1]
    return c["R"] ** n


def worker(shard, part):
    gcheck.BRUTE_LIMIT = _BRUTE[0]
    lo, hi, plo, phi = shard
    for case in _CASES[lo:hi]:
        run_case(part, case, None if plo is None else (plo, phi))
    if lo < len(_CASES) and (lo // 3) % 200 == 0:
        part.sample(_CASES[lo])


def _describe(shard):
    lo, hi, plo, phi = shard
    c = _CASES[lo]
    return "%d case(s) %s %s" % (hi - lo, (plo, phi), {k: (v if not isinstance(v, (list, tuple)) or len(v) < 6 else "[%d]" % len(v)) for k, v in c.items()})


worker.describe = _describe


_BRUTE = [300]


def main(tier, seed, only=None):
    _BRUTE[0] = 300 if tier == "quick" else 5000
    cases = prepare(tier)
    run = harness.Run(
        PID,
        tier,
        seed,
        "exploration",
        "all labelled simple graphs n<=%d%s, grids with <= %d cells; num_regions 1..%d; ALL labelings in {0..R-1}^n; roots: None, all "
        "lists over {None}+vertices for n<=3,R<=2, otherwise first/last/identity/reversed lists ((y,x) tuples on grids); "
        "allow_empty_group off/on; auxiliary and native encodings; division as IntArray1D / list / IntArray2D / int literals.  Scale family (not exhaustive): a 300-vertex path (thorough 520) and the 17x17 grid with roots at both ends / corners; on boards up to 5x5 (thorough 6x5, 1x20) the serpentine "
        "corridor as one region with every leftover strip its own region, plus the variants with two strips sharing a label and with the corridor cut.  "
        "Oracle: each label class connected, every label used unless allow_empty, roots carry their position's label."
        % (4 if tier == "quick" else 5, "" if tier == "quick" else " (n=5: 4-6 edges, plain configuration)", 6 if tier == "quick" else 8, 3 if tier == "quick" else 4),
    )
    run.assumptions = ["encoding + cspuz z3 backend under test; native route via R-native (mc/native_backend.py)", "labels range over 0..num_regions-1 (the property's premise)"]
    shards = gcheck.split_shards(cases, size_of, 250)
    first, rest = gcheck.heavy_first(shards, _CASES)
    par.run_shards(run, worker, rest, seed, first=first)
    cov = {
        "evaluations": run.c("evaluations"),
        "distinct_nontrivial": sum(g[2] ** g[0] for g in run.total.sets.get("graphs", ())),
        "graphs_x_regions": run.n("graphs"),
        "cases": len(cases),
        "exhaustive": True,
    }
    return run.finish(cov)


def replay(case):
    part = harness.Partial()
    pattern = case.get("pattern")
    c = {k: v for k, v in case.items() if k != "pattern"}
    if "edges" in c:
        c["edges"] = [tuple(e) for e in c["edges"]]
    run_case(part, c)
    mine = [v for v in part.violations if pattern is None or v.case.get("pattern") == pattern]
    return (not mine), (mine[0].detail if mine else "agrees with the oracle")
