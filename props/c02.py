"""C02 — solve() reports exactly the facts common to all solutions.

E3: the real Solver.solve is run against a scripted backend that holds an
explicit solution set S and lets a choice tape pick *any* remaining model at
every solve(); every subset S of the assignment space of 1-3 variables, every
answer-key subset and every choice sequence is explored.  The same (S, keys)
are also solved through the real z3 backend, through the `sugar` text protocol
with every model choice (refute-and-resolve over the wire), and through the
four backends with native deduction mode against the reference external solver
with every order of reply lines.
"""

import itertools
import sys
import types
import warnings

from mc import harness, par, refsem, sugar_model, tape

PID = "C02"
# IBIG / INEG: values outside CPython's small-integer cache (-5..256): a backend hands back a *fresh* int object at every
# solve, so comparisons by identity instead of by value show up only there
KINDS = {"B": None, "I01": (0, 1), "I-11": (-1, 1), "IBIG": (1000, 1001), "INEG": (-301, -300)}
DEDUCTION_BACKENDS = ["sugar_extended", "csugar", "enigma_csp", "cspuz_core"]
_FAKE_MODULES = {"csugar": "pycsugar", "enigma_csp": "enigma_csp", "cspuz_core": "cspuz_core"}


def make_solver(typing):
    from cspuz import Solver

    s = Solver()
    vs = []
    for k in typing:
        vs.append(s.bool_var() if KINDS[k] is None else s.int_var(*KINDS[k]))
    return s, vs


def space(vs):
    return list(itertools.product(*[refsem.domain(v) for v in vs]))


def table_expr(variables, sols):
    from cspuz.expr import BoolExpr, BoolVar, Op

    disj = []
    for s in sols:
        conj = []
        for v, val in zip(variables, s):
            if isinstance(v, BoolVar):
                conj.append(v if val else BoolExpr(Op.NOT, [v]))
            else:
                conj.append(BoolExpr(Op.EQ, [v, val]))
        disj.append(BoolExpr(Op.AND, conj))
    return BoolExpr(Op.OR, disj)


class ScriptedBackend(object):
    """A conforming backend without native deduction: keeps every constraint it is given, and at
    each solve() returns *some* model of them, chosen by the tape."""

    TAPE = None
    SOLVES = 0

    def __init__(self, variables):
        self.variables = list(variables)
        self.alive = [dict(zip([v.id for v in self.variables], a)) for a in space(self.variables)]

    def add_constraint(self, constraint):
        cs = constraint if isinstance(constraint, list) else [constraint]
        self.alive = [env for env in self.alive if refsem.holds(cs, env)]

    def solve(self):
        type(self).SOLVES += 1
        if type(self).SOLVES > 400:
            raise HorizonExceeded("more than 400 backend solves in one Solver.solve")
        if not self.alive:
            return False
        env = self.alive[type(self).TAPE.choose(len(self.alive))]
        for v in self.variables:
            val = env[v.id]
            # like a real backend, build the value anew at every solve (no object identity across solves)
            v.sol = val if isinstance(val, bool) else int(str(val))
        return True

    def solve_irrefutably(self, is_answer_key):
        raise NotImplementedError


def post(s, vs, S):
    """Post the table of S; for every second solution-set size also vacuously true constraints whose trees contain
    operand-less n-ary nodes after a sibling (empty folds at a board edge look like this): they must change nothing."""
    from cspuz.expr import BoolExpr, BoolVar, Op

    s.ensure(table_expr(vs, S))
    if len(S) % 2 == 1:
        lit = vs[0] if isinstance(vs[0], BoolVar) else BoolExpr(Op.EQ, [vs[0], vs[0]])
        s.ensure(BoolExpr(Op.NOT, [BoolExpr(Op.AND, [lit, BoolExpr(Op.OR, [])])]))
        s.ensure(BoolExpr(Op.OR, [BoolExpr(Op.NOT, [lit]), lit, BoolExpr(Op.AND, [])]))


def register_keys(s, vs, keymask, form):
    """Every way of handing variables to add_answer_key()."""
    keys = [v for v, k in zip(vs, keymask) if k]
    if form == 0:
        for v in keys:
            s.add_answer_key(v)
    elif form == 1:
        s.add_answer_key(list(keys))
    elif form == 2:
        s.add_answer_key(*keys)
    elif form == 3:
        s.add_answer_key((v for v in keys))
    elif form == 4:
        s.add_answer_key(map(lambda v: v, keys))
    elif form == 5:
        s.add_answer_key([keys[:1], iter(keys[1:])])
    else:
        s.add_answer_key(tuple(keys), [])


def judge(part, case, vs, S, keymask, result, route):
    """Oracle of C02 for one finished execution."""
    sat = bool(S)
    if result is not True and result is not False:
        part.violation("%s:non-bool-result" % route, case, {"result": repr(result)})
        return
    if result != sat:
        part.violation("%s:wrong-verdict-%s" % (route, "sat" if result else "unsat"), case, {"returned": result, "solutions": len(S)})
        return
    if not sat:
        return
    facts = refsem.exact_facts(vs, S, keymask)
    for idx, v in enumerate(vs):
        if not keymask[idx]:
            continue
        got = v.sol
        want = facts[idx]
        if want is None:
            if got is not None:
                part.violation("%s:undetermined-key-reported" % route, case, {"var": idx, "sol": repr(got), "values_in_S": sorted(set(s[idx] for s in S))})
                return
        else:
            if got is None:
                part.violation("%s:determined-key-missed" % route, case, {"var": idx, "expected": want})
                return
            if got != want or type(got) is not type(want):
                part.violation("%s:wrong-fact" % route, case, {"var": idx, "sol": repr(got), "expected": repr(want)})
                return


def all_subsets(items):
    items = list(items)
    for mask in range(1 << len(items)):
        yield [x for k, x in enumerate(items) if mask >> k & 1]


def keymasks(n):
    return [tuple(bool(m >> k & 1) for k in range(n)) for m in range(1 << n)]


def run_scripted(part, typing, S, keymask):
    """All choice sequences of the scripted backend for one (typing, S, keys)."""
    case = {"route": "scripted", "typing": list(typing), "S": [list(s) for s in S], "keys": list(keymask)}

    def one(t):
        s, vs = make_solver(typing)
        post(s, vs, S)
        register_keys(s, vs, keymask, (len(S) + sum(keymask)) % 7)
        if list(s.is_answer_key) != list(keymask):
            return ("raises", "KeysNotRegistered", "is_answer_key=%r after registering %r" % (s.is_answer_key, keymask)), vs
        ScriptedBackend.TAPE = t
        ScriptedBackend.SOLVES = 0
        with warnings.catch_warnings():
            warnings.simplefilter("ignore")
            try:
                r = s.solve(backend=ScriptedBackend)
            except tape.ReplayDivergence:
                raise
            except Exception as e:
                return ("raises", type(e).__name__, repr(e)[:200]), vs
        return ("ok", r, ScriptedBackend.SOLVES), vs

    nexec = 0
    for choices, (obs, vs) in tape.explore(one):
        nexec += 1
        c = dict(case)
        c["tape"] = choices
        if obs[0] == "raises":
            part.violation("scripted:raises-" + obs[1], c, {"exception": obs[2]})
            continue
        part.maxi("rounds", obs[2])
        judge(part, c, vs, S, keymask, obs[1], "scripted")
    part.count("executions", nexec)
    part.count("transitions", nexec)
    part.maxi("tapes_per_case", nexec)
    part.add("cases", (typing, tuple(S), keymask))
    facts = refsem.exact_facts(make_solver(typing)[1], S, keymask) if S else "unsat"
    part.outcome("facts:%s" % ("unsat" if not S else "".join("-" if f == "notkey" else ("?" if f is None else "!") for f in facts)))
    return nexec


def run_z3(part, typing, S, keymask):
    case = {"route": "z3", "typing": list(typing), "S": [list(s) for s in S], "keys": list(keymask)}
    s, vs = make_solver(typing)
    post(s, vs, S)
    for v, k in zip(vs, keymask):
        if k:
            s.add_answer_key(v)
    with warnings.catch_warnings():
        warnings.simplefilter("ignore")
        try:
            r = s.solve(backend="z3")
        except Exception as e:
            part.violation("z3:raises-" + type(e).__name__, case, {"exception": repr(e)[:200]})
            return
    part.count("z3_solves")
    judge(part, case, vs, S, keymask, r, "z3")
    # history on the same Solver: a find_answer (which writes a full model into .sol) and then solve again - the second
    # deduction must report the same facts as the first (nothing may be carried over from the calls in between)
    if (len(S) + sum(keymask)) % 2 == 0:
        with warnings.catch_warnings():
            warnings.simplefilter("ignore")
            try:
                s.find_answer(backend="z3")
                r2 = s.solve(backend="z3")
            except Exception as e:
                part.violation("z3:second-solve-raises-" + type(e).__name__, dict(case, history="solve,find_answer,solve"), {"exception": repr(e)[:200]})
                return
        part.count("z3_solves")
        judge(part, dict(case, history="solve,find_answer,solve"), vs, S, keymask, r2, "z3")
    # answer keys added between two solves: only the first key is registered for the first solve, the others afterwards
    if sum(keymask) >= 2:
        s3, vs3 = make_solver(typing)
        post(s3, vs3, S)
        keyed = [v for v, k in zip(vs3, keymask) if k]
        hist = dict(case, history="solve(first key),add_answer_key(rest),solve")
        with warnings.catch_warnings():
            warnings.simplefilter("ignore")
            try:
                s3.add_answer_key(keyed[0])
                s3.solve(backend="z3")
                s3.add_answer_key(keyed[1:])
                r3 = s3.solve(backend="z3")
            except Exception as e:
                part.violation("z3:solve-after-more-keys-raises-" + type(e).__name__, hist, {"exception": repr(e)[:200]})
                return
        part.count("z3_solves", 2)
        judge(part, hist, vs3, S, keymask, r3, "z3")


# ---- text-protocol routes -----------------------------------------------------------
class HorizonExceeded(Exception):
    pass


class WireEnv(object):
    """Installs the reference external solver behind every entry point of the sugar family."""

    def __init__(self):
        self.tape = None
        self.calls = []

    HORIZON = 400  # external-solver calls per execution; the longest legal refinement needs #keys + 2

    def answer(self, text):
        self.calls.append(text)
        if len(self.calls) > self.HORIZON:
            raise HorizonExceeded("more than %d external solver calls in one solve" % self.HORIZON)
        prog = sugar_model.parse(text)
        ms = sugar_model.models(prog)
        if prog.keys is None:
            if not ms:
                return sugar_model.reply_finder(prog, None)
            m = ms[self.tape.choose(len(ms))]
            return sugar_model.reply_finder(prog, m, 0)
        if not ms:
            return sugar_model.reply_deduction(prog, None)
        facts = sugar_model.exact_facts(prog, ms)
        nperm = 1
        for k in range(2, len(facts) + 1):
            nperm *= k
        return sugar_model.reply_deduction(prog, facts, self.tape.choose(nperm) if nperm > 1 else 0)

    def install(self):
        from cspuz.backend import sugar_like

        self._saved = sugar_like.run_subprocess
        sugar_like.run_subprocess = lambda args, input, timeout=None: self.answer(input)
        self._mods = {}
        for name in _FAKE_MODULES.values():
            self._mods[name] = sys.modules.get(name, "absent")
            m = types.ModuleType(name)
            m.solver = self.answer
            sys.modules[name] = m

    def uninstall(self):
        from cspuz.backend import sugar_like

        sugar_like.run_subprocess = self._saved
        for name, old in self._mods.items():
            if old == "absent":
                sys.modules.pop(name, None)
            else:
                sys.modules[name] = old


def run_wire(part, wire, backend, typing, S, keymask):
    case = {"route": backend, "typing": list(typing), "S": [list(s) for s in S], "keys": list(keymask)}

    def one(t):
        s, vs = make_solver(typing)
        post(s, vs, S)
        for v, k in zip(vs, keymask):
            if k:
                s.add_answer_key(v)
        wire.tape = t
        wire.calls = []
        with warnings.catch_warnings():
            warnings.simplefilter("ignore")
            try:
                r = s.solve(backend=backend)
            except tape.ReplayDivergence:
                raise
            except Exception as e:
                return ("raises", type(e).__name__, repr(e)[:200]), vs
        modes = set("deduction" if c.split("\n")[-1].startswith("#") else "finder" for c in wire.calls)
        return ("ok", r, len(wire.calls), tuple(sorted(modes))), vs

    nexec = 0
    for choices, (obs, vs) in tape.explore(one):
        nexec += 1
        c = dict(case)
        c["tape"] = choices
        if obs[0] == "raises":
            part.violation("%s:raises-%s" % (backend, obs[1]), c, {"exception": obs[2]})
            continue
        want_mode = ("finder",) if backend == "sugar" else ("deduction",)
        if obs[3] != want_mode:
            part.violation("%s:wrong-protocol-mode" % backend, c, {"modes": obs[3]})
        if backend != "sugar" and obs[2] != 1:
            part.violation("%s:deduction-called-%d-times" % (backend, obs[2]), c, {})
        judge(part, c, vs, S, keymask, obs[1], backend)
    part.count("wire_executions", nexec)
    part.count("transitions", nexec)


def run_scale(part, n, free_first):
    """Many answer keys through the real z3 backend; the facts are known by construction: `forced` keys are pinned by
    constraints, `free` boolean keys are unconstrained, and two integer keys are only linked by !=."""
    from cspuz import Solver

    nfree = max(1, min(40, n // 6))
    s = Solver()
    free = [s.bool_var() for _ in range(nfree)] if free_first else []
    forced = [s.bool_var() for _ in range(n - nfree)]
    if not free_first:
        free = [s.bool_var() for _ in range(nfree)]
    a = s.int_var(1000, 1001)
    b = s.int_var(1000, 1001)
    big = s.int_var(0, 5000)
    for k, v in enumerate(forced):
        s.ensure(v if k % 2 == 0 else ~v)
    s.ensure(a != b)
    s.ensure(big == 4097)
    s.add_answer_key(free, forced, a, b, big)
    case = {"route": "scale", "keys": n + 3, "free_first": free_first}
    part.count("evaluations")
    part.count("transitions")
    with warnings.catch_warnings():
        warnings.simplefilter("ignore")
        try:
            r = s.solve(backend="z3")
        except Exception as e:
            part.violation("scale:raises-" + type(e).__name__, case, {"exception": repr(e)[:200]})
            return
    bad = []
    if r is not True:
        bad.append(("verdict", r))
    for k, v in enumerate(forced):
        want = (k % 2 == 0)
        if v.sol is not want:
            bad.append(("forced#%d" % k, v.sol))
    for k, v in enumerate(free):
        if v.sol is not None:
            bad.append(("free#%d" % k, v.sol))
    if a.sol is not None or b.sol is not None:
        bad.append(("linked-ints", (a.sol, b.sol)))
    if big.sol != 4097:
        bad.append(("big", big.sol))
    if bad:
        part.violation("scale:wrong-facts", case, {"first": repr(bad[0]), "wrong_keys": len(bad)})
    else:
        part.add("cases", ("scale", n, free_first))


def typings(n):
    return list(itertools.product(sorted(KINDS), repeat=n))


def space_size(typing):
    n = 1
    for k in typing:
        n *= 2 if KINDS[k] is None else KINDS[k][1] - KINDS[k][0] + 1
    return n


def worker(shard, part):
    if shard[0] == "scale":
        run_scale(part, shard[1], shard[2])
        return
    what, typing, lo, hi = shard
    _, vs = make_solver(typing)
    A = space(vs)
    if what == "scripted":
        for mask in range(lo, hi):
            S = [a for k, a in enumerate(A) if mask >> k & 1]
            for km in keymasks(len(typing)):
                run_scripted(part, typing, S, km)
        part.sample({"typing": typing, "S": [a for k, a in enumerate(A) if lo >> k & 1], "route": "scripted, every key subset, every tape"})
    elif what == "z3":
        for mask in range(lo, hi):
            S = [a for k, a in enumerate(A) if mask >> k & 1]
            for km in keymasks(len(typing)):
                run_z3(part, typing, S, km)
    elif what == "wire":
        wire = WireEnv()
        wire.install()
        try:
            for mask in range(lo, hi):
                S = [a for k, a in enumerate(A) if mask >> k & 1]
                for km in keymasks(len(typing)):
                    for be in DEDUCTION_BACKENDS + ["sugar"]:
                        run_wire(part, wire, be, typing, S, km)
        finally:
            wire.uninstall()


def determinism_probe():
    """Replay one recorded tape twice and require identical observations."""
    part1, part2 = harness.Partial(), harness.Partial()
    typing = ("B", "I-11")
    _, vs = make_solver(typing)
    A = space(vs)
    S = [A[0], A[3], A[4]]
    run_scripted(part1, typing, S, (True, True))
    run_scripted(part2, typing, S, (True, True))
    return part1.counters == part2.counters and part1.outcomes == part2.outcomes


def main(tier, seed, only=None):
    run = harness.Run(
        PID,
        tier,
        seed,
        "model_checking",
        "variable typings over {bool, int[0,1], int[-1,1], int[1000,1001], int[-301,-300]} with 1-2 variables (quick) / +3 variables with <= 8 assignments "
        "(thorough); ALL subsets S of the assignment space as the solution set; ALL answer-key subsets; route 'scripted': ALL "
        "choice sequences of a conforming backend that may return any remaining model (choice-tape DFS on the real "
        "Solver.solve); route 'z3': the same (S, keys) through the real z3 backend; routes sugar_extended/csugar/enigma_csp/"
        "cspuz_core: native deduction reply of the reference external solver under every permutation of reply lines; route "
        "'sugar': refute-and-resolve over the text protocol with every model choice.  Answer keys are registered through 7 forms of add_answer_key (single, "
        "list, varargs, generator, map, nested iterators, tuple).  Scale family (not exhaustive): 8..300 (thorough 1025) answer keys through the real z3 "
        "backend with facts known by construction (pinned keys, free keys, two ints linked by !=), free keys first or last.  State = (S, keys, answer "
        "vector after each round); states counted as distinct (typing, S, keys) cases.",
    )
    run.assumptions = [
        "a conforming backend returns, at every solve(), some model of all constraints it was given (scripted backend filters "
        "the assignment space with mc/refsem.py) - this is the environment the tape ranges over",
        "external solvers are represented by mc/sugar_model.py (strict parser + brute force), reply formats transcribed from "
        "sugar_extension/CspuzSugarInterface.java",
        "non-key variables are not judged (the property does not constrain them)",
    ]
    if not determinism_probe():
        run.harness_error("determinism probe: two replays of the same tapes differ")
    shards = []
    sizes = (1, 2) if tier == "quick" else (1, 2, 3)
    for n in sizes:
        for ty in typings(n):
            sz = space_size(ty)
            if n == 3 and sz > 8:
                continue
            total = 1 << sz
            step = max(1, total // 16) if total >= 64 else total
            for lo in range(0, total, step):
                shards.append(("scripted", ty, lo, min(total, lo + step)))
            if n <= 2:
                for lo in range(0, total, step):
                    shards.append(("z3", ty, lo, min(total, lo + step)))
            if sz <= (6 if tier == "quick" else 8):
                for lo in range(0, total, step):
                    shards.append(("wire", ty, lo, min(total, lo + step)))
    for n in ((8, 64, 255, 256, 257, 300) if tier == "quick" else (8, 64, 127, 128, 129, 255, 256, 257, 300, 511, 512, 513, 1025)):
        for ff in (False, True):
            shards.append(("scale", n, ff))
    if only:
        shards = [s for s in shards if s[0] == only]
    par.run_shards(run, worker, shards, seed)
    cov = {
        "states": run.n("cases"),
        "transitions": run.c("transitions"),
        "traces_validated_against_impl": run.c("executions") + run.c("wire_executions") + run.c("z3_solves"),
        "executions_scripted": run.c("executions"),
        "executions_wire": run.c("wire_executions"),
        "solves_z3": run.c("z3_solves"),
        "max_refinement_rounds": run.c("max:rounds"),
        "max_tapes_per_case": run.c("max:tapes_per_case"),
        "evaluations": run.c("executions") + run.c("wire_executions") + run.c("z3_solves"),
        "distinct_nontrivial": run.n("cases"),
        "exhaustive": True,
        "bound": "<= %d variables, assignment space <= %d, all subsets, all key subsets, all tapes (no deviation bound)" % (sizes[-1], 9 if tier == "quick" else 9),
    }
    return run.finish(cov)


def replay(case):
    part = harness.Partial()
    typing = tuple(case["typing"])
    S = [tuple(s) for s in case["S"]]
    km = tuple(case["keys"])
    if case["route"] == "scripted":
        run_scripted(part, typing, S, km)
    elif case["route"] == "z3":
        run_z3(part, typing, S, km)
    else:
        wire = WireEnv()
        wire.install()
        try:
            run_wire(part, wire, case["route"], typing, S, km)
        finally:
            wire.uninstall()
    mine = [v for v in part.violations if v.case.get("tape") == case.get("tape")] or part.violations
    return (not mine), (mine[0].detail if mine else "agrees with the oracle")
