"""C16 — puzzle URL codecs round-trip and agree with the puzz.link/pzv format.

E1: for each codec all problems on boards h, w in 1..3 (all non-square pairs)
over the module's cell alphabet extended with the encoding's boundary values,
by the cap rule (all layouts with <= k non-default cells, k as large as the
per-board cap allows); room-based codecs over all connected partitions.
Checks: decode(encode(p)) == p with dimensions; URL shape; an independent
pzpr decoder (mc/pzpr_ref.py) reads the body back as the same problem; legacy
helper encoders produce the same text as the combinator codecs.
"""

import itertools
import re

from mc import graphref, harness, par, pzpr_ref

PID = "C16"

GRID_CODECS = {
    # name: (module, url name, serialize fn, deserialize fn, default, alphabet, reference decoder)
    "nurikabe": ("nurikabe", "nurikabe", "serialize_nurikabe", "deserialize_nurikabe", 0, [-1, 1, 2, 15, 16, 255, 256, 4095], pzpr_ref.nurikabe),
    "sudoku": ("sudoku", "sudoku", "serialize_sudoku", "deserialize_sudoku", 0, [1, 9, 15, 16, 25], pzpr_ref.sudoku),
    "nurimisaki": ("nurimisaki", "nurimisaki", "serialize_nurimisaki", "deserialize_nurimisaki", -1, [0, 2, 3, 15, 16, 255], pzpr_ref.nurimisaki),
    "masyu": ("masyu", "masyu", "serialize_masyu", "deserialize_masyu", 0, [1, 2], pzpr_ref.masyu),
    "slitherlink": ("slitherlink", "slither", "serialize_slitherlink", "deserialize_slitherlink", -1, [0, 1, 2, 3, 4], pzpr_ref.fourcell),
    "yajilin": ("yajilin", "yajilin", "serialize_yajilin", "deserialize_yajilin", "..", ["??", "^0", "v1", "<15", ">16", "^2", "v255"], pzpr_ref.yajilin),
}


def layouts(ncells, default, alphabet, cap):
    """All layouts with <= k non-default cells, for the largest k whose count stays <= cap; plus full boards."""
    out = []
    k_used = 0
    total = 0
    for k in range(0, ncells + 1):
        cnt = 1
        # C(ncells, k) * |alphabet|^k
        num = 1
        for i in range(k):
            num = num * (ncells - i) // (i + 1)
        cnt = num * (len(alphabet) ** k)
        if total + cnt > cap and k > 1:
            break
        total += cnt
        k_used = k
        for pos in itertools.combinations(range(ncells), k):
            for vals in itertools.product(alphabet, repeat=k):
                cells = [default] * ncells
                for p, v in zip(pos, vals):
                    cells[p] = v
                out.append(cells)
    if k_used < ncells:
        for a in alphabet:
            out.append([a] * ncells)
            for b in alphabet[:2]:
                out.append([a if i % 2 == 0 else b for i in range(ncells)])
                out.append([default if i % 3 == 2 else (a if i % 3 == 0 else b) for i in range(ncells)])
    return out, k_used


def url_ok(url, name, h, w, prefix="https://puzz.link/p?"):
    m = re.match(r"^" + re.escape(prefix) + r"([^/]+)/(\d+)/(\d+)/(.*)$", url)
    if not m:
        return None
    if m.group(1) != name or int(m.group(2)) != w or int(m.group(3)) != h:
        return None
    return m.group(4)


def mod(name):
    import importlib

    return importlib.import_module("cspuz.puzzle." + name)


def big_layouts(ncells, default, alphabet):
    """A few layouts for boards far beyond the exhaustive bound: empty, dense, sparse, last cell only, long blank runs."""
    L = len(alphabet)
    return [
        [default] * ncells,
        [alphabet[i % L] for i in range(ncells)],
        [alphabet[(i // 7) % L] if i % 7 == 0 else default for i in range(ncells)],
        [default] * (ncells - 1) + [alphabet[-1]],
        [alphabet[0]] + [default] * (ncells - 2) + [alphabet[1 % L]],
        [alphabet[(i // 41) % L] if i % 41 == 40 else default for i in range(ncells)],
    ]


def run_grid_codec(part, cname, h, w, cap):
    modname, urlname, ser, de, default, alphabet, ref = GRID_CODECS[cname]
    m = mod(modname)
    serialize, deserialize = getattr(m, ser), getattr(m, de)
    if cap == "big":
        lays, k = big_layouts(h * w, default, alphabet), -1
    else:
        lays, k = layouts(h * w, default, alphabet, cap)
    part.add("bounds", (cname, h, w, k))
    for cells in lays:
        problem = [cells[y * w : (y + 1) * w] for y in range(h)]
        case = {"codec": cname, "height": h, "width": w, "problem": problem}
        part.count("evaluations")
        try:
            url = serialize([list(r) for r in problem])
        except Exception as e:
            part.violation("%s:encode-raises-%s" % (cname, type(e).__name__), case, {"exception": repr(e)[:200]})
            continue
        body = url_ok(url, urlname, h, w)
        if body is None:
            part.violation("%s:url-shape" % cname, case, {"url": url})
            continue
        try:
            back = deserialize(url)
        except Exception as e:
            part.violation("%s:decode-raises-%s" % (cname, type(e).__name__), case, {"url": url, "exception": repr(e)[:200]})
            continue
        if back != problem:
            part.violation("%s:roundtrip-differs" % cname, case, {"url": url, "decoded": back})
            continue
        try:
            refp = ref(body, h, w)
        except pzpr_ref.RefError as e:
            part.violation("%s:body-not-pzpr" % cname, case, {"url": url, "reference_decoder": str(e)})
            continue
        if refp != problem:
            part.violation("%s:pzpr-reads-different-problem" % cname, case, {"url": url, "reference_decoder": refp})
            continue
        part.add("nontrivial", (cname, h, w, url))
    # legacy helper encoder vs combinator codec on identical data (number16 family only)
    if cname in ("nurikabe", "sudoku", "nurimisaki"):
        from cspuz.puzzle import util

        for cells in lays:
            if cname == "nurikabe" and -1 in cells:
                continue  # '?' has no encode_array representation other than a literal string
            if cname == "nurimisaki" and 0 in cells:
                continue
            problem = [cells[y * w : (y + 1) * w] for y in range(h)]
            part.count("evaluations")
            try:
                legacy = util.encode_array([list(r) for r in problem], empty=default)
                body = url_ok(serialize([list(r) for r in problem]), urlname, h, w)
            except Exception as e:
                part.violation("encode_array:raises-%s" % type(e).__name__, {"codec": cname, "problem": problem}, {"exception": repr(e)[:200]})
                continue
            if legacy != body:
                part.violation("encode_array:differs-from-combinator", {"codec": cname, "height": h, "width": w, "problem": problem}, {"legacy": legacy, "combinator": body})


def partitions(h, w):
    n = h * w
    if n > 12:
        # big boards: a few structured partitions instead of all of them
        yield [[(y, x) for y in range(h) for x in range(w)]]
        yield [[(y, x)] for y in range(h) for x in range(w)]
        yield [[(y, x) for x in range(w)] for y in range(h)]
        yield [[(y, x) for y in range(h)] for x in range(w)]
        blocks = {}
        for y in range(h):
            for x in range(w):
                blocks.setdefault((y // 2, x // 3), []).append((y, x))
        yield list(blocks.values())
        return
    for part in graphref.connected_partitions(n, graphref.grid_edges(h, w)):
        yield [[divmod(c, w) for c in blk] for blk in part]


def base_connected(cells):
    cells = set(map(tuple, cells))
    if not cells:
        return False
    seen = set()
    todo = [next(iter(cells))]
    while todo:
        y, x = todo.pop()
        if (y, x) in seen:
            continue
        seen.add((y, x))
        todo += [q for q in ((y + 1, x), (y - 1, x), (y, x + 1), (y, x - 1)) if q in cells]
    return seen == cells


def canon_rooms(rooms):
    return sorted(sorted(tuple(c) for c in r) for r in rooms)


def run_room_codecs(part, h, w, cap):
    from cspuz.problem_serializer import Rooms, serialize_problem
    from cspuz.puzzle import aquarium, heyawake, lits, norinori, star_battle, util

    for rooms in partitions(h, w):
        base = {"height": h, "width": w, "rooms": rooms}
        # a URL of the same size that is refused late (one border drawn inside what is otherwise a single room): offered to each
        # module decoder right before every judged decode - a refused decode must leave nothing behind
        nbits = h * (w - 1) + (h - 1) * w
        nchar = (nbits + 4) // 5
        for cname, de in (("lits", lits.deserialize_lits), ("norinori", norinori.deserialize_norinori), ("heyawake", heyawake.deserialize_heyawake)):
            if nchar:
                try:
                    de("https://puzz.link/p?%s/%d/%d/%s" % (cname, w, h, "g" + "0" * (nchar - 1) + ("0" if cname == "heyawake" else "")))
                except Exception:
                    pass  # judged by C17
        presentations = [rooms, [list(reversed(r)) for r in reversed(rooms)]]
        # further list orders (rotations, a 3-cycle, an interleaving): judged with clue sets of pairwise distinct values only
        extra = []
        if len(rooms) >= 3:
            extra = [rooms[1:] + rooms[:1], rooms[2:] + rooms[:2], [rooms[1], rooms[2], rooms[0]] + rooms[3:], rooms[::2] + rooms[1::2]]
            extra = [e for k, e in enumerate(extra) if e not in presentations and e not in extra[:k]]
        for pres in presentations + extra:
            # lits / norinori: Rooms only
            for cname, m, ser, de in (("lits", lits, "serialize_lits", "deserialize_lits"), ("norinori", norinori, "serialize_norinori", "deserialize_norinori")):
                case = dict(base, codec=cname, rooms=pres)
                part.count("evaluations")
                try:
                    url = getattr(m, ser)(h, w, [list(r) for r in pres])
                    back = getattr(m, de)(url)
                except Exception as e:
                    part.violation("%s:raises-%s" % (cname, type(e).__name__), case, {"exception": repr(e)[:200]})
                    continue
                body = url_ok(url, cname, h, w)
                if body is None:
                    part.violation("%s:url-shape" % cname, case, {"url": url})
                    continue
                if not (isinstance(back, tuple) and len(back) == 3 and back[0] == h and back[1] == w and canon_rooms(back[2]) == canon_rooms(pres)):
                    part.violation("%s:roundtrip-differs" % cname, case, {"url": url, "decoded": back})
                    continue
                try:
                    refr = pzpr_ref.rooms_only(body, h, w)
                except pzpr_ref.RefError as e:
                    part.violation("%s:body-not-pzpr" % cname, case, {"url": url, "reference_decoder": str(e)})
                    continue
                if canon_rooms(refr) != canon_rooms(pres):
                    part.violation("%s:pzpr-reads-different-problem" % cname, case, {"url": url})
                    continue
                part.add("nontrivial", (cname, url))
            # heyawake: rooms + clue per room
            k = len(pres)
            menus = [-1, 0, 1, 15, 16, 255]
            clue_sets = [[-1] * k]
            if pres in extra:
                clue_sets = [[i % 250 for i in range(k)], [(-1 if i % 3 == 2 else (i * 7) % 19) for i in range(k)]]
            elif len(menus) ** k <= cap:
                clue_sets = [list(c) for c in itertools.product(menus, repeat=k)]
            else:
                for i in range(k):
                    for v in menus[1:]:
                        c = [-1] * k
                        c[i] = v
                        clue_sets.append(c)
                clue_sets.append([menus[(i % 5) + 1] for i in range(k)])
            for clues in clue_sets:
                case = dict(base, codec="heyawake", rooms=pres, clues=clues)
                part.count("evaluations")
                try:
                    url = heyawake.serialize_heyawake(h, w, [list(r) for r in pres], list(clues))
                    back = heyawake.deserialize_heyawake(url)
                except Exception as e:
                    part.violation("heyawake:raises-%s" % type(e).__name__, case, {"exception": repr(e)[:200]})
                    continue
                body = url_ok(url, "heyawake", h, w)
                want = sorted(zip([sorted(tuple(c) for c in r) for r in pres], clues))
                if body is None:
                    part.violation("heyawake:url-shape", case, {"url": url})
                    continue
                ok = isinstance(back, tuple) and len(back) == 3 and back[0] == h and back[1] == w
                if ok:
                    br, bc = back[2]
                    ok = sorted(zip([sorted(tuple(c) for c in r) for r in br], bc)) == want
                if not ok:
                    part.violation("heyawake:roundtrip-differs", case, {"url": url, "decoded": back})
                    continue
                try:
                    rr, rv = pzpr_ref.heyawake(body, h, w)
                except pzpr_ref.RefError as e:
                    part.violation("heyawake:body-not-pzpr", case, {"url": url, "reference_decoder": str(e)})
                    continue
                if sorted(zip([sorted(r) for r in rr], rv)) != want:
                    part.violation("heyawake:pzpr-reads-different-problem", case, {"url": url, "reference_decoder": [rr, rv]})
                    continue
                part.add("nontrivial", ("heyawake", url))
        # one rooms list object whose CONTENT is edited in place (a cell moves to a neighbouring room) between two calls
        if len(rooms) >= 2:
            lst = [list(r) for r in rooms]
            moved = None
            for i, r in enumerate(lst):
                for c in r:
                    if len(r) >= 2 and base_connected([d for d in r if d != c]):
                        for j, r2 in enumerate(lst):
                            if j != i and any(abs(c[0] - d[0]) + abs(c[1] - d[1]) == 1 for d in r2):
                                moved = (i, j, c)
                                break
                    if moved:
                        break
                if moved:
                    break
            if moved:
                for cname, ser, de in (("lits", lits.serialize_lits, lits.deserialize_lits), ("norinori", norinori.serialize_norinori, norinori.deserialize_norinori),
                                       ("heyawake", lambda hh, ww, rr: heyawake.serialize_heyawake(hh, ww, rr, [1] * len(rr)), heyawake.deserialize_heyawake)):
                    lst = [list(r) for r in rooms]
                    part.count("evaluations")
                    case = dict(base, codec=cname, rooms=[list(r) for r in rooms], inplace_step="move-cell %r" % (moved,))
                    try:
                        ser(h, w, lst)
                        i, j, c = moved
                        lst[i].remove(c)
                        lst[j].append(c)
                        url = ser(h, w, lst)
                        back = de(url)
                        got = back[2][0] if cname == "heyawake" else back[2]
                        if canon_rooms(got) != canon_rooms(lst):
                            part.violation("%s{in-place}:stale-after-content-edit" % cname, case, {"url": url, "decoded": repr(got)[:200]})
                    except Exception as e:
                        part.violation("%s{in-place}:raises-%s" % (cname, type(e).__name__), case, {"exception": repr(e)[:200]})
        # one rooms list object, reordered in place between two calls of the module-level encoder (clues follow their rooms)
        if len(rooms) >= 3:
            lst = [list(r) for r in rooms]
            vals = [(7 * i + 1) % 23 for i in range(len(lst))]
            for step in ("as-is", "reverse", "rotate", "swap", "sort"):
                if step == "reverse":
                    lst.reverse(); vals.reverse()
                elif step == "rotate":
                    lst.append(lst.pop(0)); vals.append(vals.pop(0))
                elif step == "swap":
                    lst[0], lst[-1] = lst[-1], lst[0]; vals[0], vals[-1] = vals[-1], vals[0]
                elif step == "sort":
                    order = sorted(range(len(lst)), key=lambda i: sorted(lst[i]))
                    lst[:] = [lst[i] for i in order]; vals[:] = [vals[i] for i in order]
                case = dict(base, codec="heyawake", rooms=[list(r) for r in lst], clues=list(vals), inplace_step=step)
                part.count("evaluations")
                try:
                    url = heyawake.serialize_heyawake(h, w, lst, vals)
                    back = heyawake.deserialize_heyawake(url)
                except Exception as e:
                    part.violation("heyawake{in-place}:raises-%s" % type(e).__name__, case, {"exception": repr(e)[:200]})
                    break
                want = sorted(zip([sorted(tuple(c) for c in r) for r in lst], vals))
                ok = isinstance(back, tuple) and len(back) == 3 and back[0] == h and back[1] == w
                if ok:
                    ok = sorted(zip([sorted(tuple(c) for c in r) for r in back[2][0]], back[2][1])) == want
                if not ok:
                    part.violation("heyawake{in-place}:roundtrip-differs", case, {"url": url, "decoded": repr(back)[:200]})
                    break
        # rectangular representation of heyawake, when every room is a rectangle
        rects = []
        for r in rooms:
            ys = [c[0] for c in r]
            xs = [c[1] for c in r]
            if (max(ys) - min(ys) + 1) * (max(xs) - min(xs) + 1) != len(r):
                rects = None
                break
            rects.append((min(ys), min(xs), max(ys) + 1, max(xs) + 1, len(rects) % 3))
        if rects:
            part.count("evaluations")
            case = dict(base, codec="heyawake-rect", rects=rects)
            try:
                url = heyawake.serialize_heyawake(h, w, rects)
                back = heyawake.deserialize_heyawake(url)
                rr, rv = pzpr_ref.heyawake(url_ok(url, "heyawake", h, w), h, w)
                want = sorted((sorted((y, x) for y in range(a, c) for x in range(b, d)), n) for a, b, c, d, n in rects)
                if back is None or back[0] != h or back[1] != w or sorted(zip([sorted(r) for r in back[2][0]], back[2][1])) != want or sorted(zip([sorted(r) for r in rr], rv)) != want:
                    part.violation("heyawake-rect:roundtrip-differs", case, {"url": url})
            except Exception as e:
                part.violation("heyawake-rect:raises-%s" % type(e).__name__, case, {"exception": repr(e)[:200]})
        # legacy segmentation encoder vs Rooms, star battle and aquarium URL producers
        block_id = util.blocks_to_block_id(h, w, rooms)
        part.count("evaluations")
        try:
            legacy = util.encode_grid_segmentation(h, w, block_id)
            comb = serialize_problem(Rooms(), [list(r) for r in rooms], height=h, width=w)
            if legacy != comb:
                part.violation("encode_grid_segmentation:differs-from-Rooms", dict(base), {"legacy": legacy, "combinator": comb})
        except Exception as e:
            part.violation("encode_grid_segmentation:raises-%s" % type(e).__name__, dict(base), {"exception": repr(e)[:200]})
        if h == w:
            for kk in (1, 2):
                part.count("evaluations")
                case = dict(base, codec="star_battle", k=kk)
                try:
                    url = star_battle.problem_to_pzv_url(h, kk, block_id)
                except Exception as e:
                    part.violation("star_battle:raises-%s" % type(e).__name__, case, {"exception": repr(e)[:200]})
                    continue
                m = re.match(r"^https?://[^/]+/p(?:\.html)?\?starbattle/(\d+)/(\d+)/(\d+)/(.*)$", url)
                if not m or int(m.group(1)) != w or int(m.group(2)) != h or int(m.group(3)) != kk:
                    part.violation("star_battle:url-shape", case, {"url": url})
                    continue
                try:
                    if canon_rooms(pzpr_ref.rooms_only(m.group(4), h, w)) != canon_rooms(rooms):
                        part.violation("star_battle:pzpr-reads-different-problem", case, {"url": url})
                except pzpr_ref.RefError as e:
                    part.violation("star_battle:body-not-pzpr", case, {"url": url, "reference_decoder": str(e)})
        # aquarium
        row_menu = [-1, 0, 1, 15, 16]
        clue_cases = [([-1] * h, [-1] * w)]
        for i in range(h):
            for v in row_menu[1:]:
                rc = [-1] * h
                rc[i] = v
                clue_cases.append((rc, [-1] * w))
        for i in range(w):
            for v in row_menu[1:]:
                cc = [-1] * w
                cc[i] = v
                clue_cases.append(([-1] * h, cc))
        clue_cases.append(([row_menu[(i % 4) + 1] for i in range(h)], [row_menu[((i + 2) % 4) + 1] for i in range(w)]))
        for rc, cc in clue_cases:
            part.count("evaluations")
            case = dict(base, codec="aquarium", clue_row=rc, clue_col=cc)
            try:
                url = aquarium.problem_to_url(h, w, [list(r) for r in rooms], list(rc), list(cc))
            except Exception as e:
                part.violation("aquarium:raises-%s" % type(e).__name__, case, {"exception": repr(e)[:200]})
                continue
            body = url_ok(url, "aquarium", h, w)
            if body is None:
                part.violation("aquarium:url-shape", case, {"url": url})
                continue
            try:
                rr, rrow, rcol = pzpr_ref.aquarium(body, h, w)
            except pzpr_ref.RefError as e:
                part.violation("aquarium:body-not-pzpr", case, {"url": url, "reference_decoder": str(e)})
                continue
            if canon_rooms(rr) != canon_rooms(rooms) or rrow != rc or rcol != cc:
                part.violation("aquarium:pzpr-reads-different-problem", case, {"url": url, "reference_decoder": [rrow, rcol]})
            else:
                part.add("nontrivial", ("aquarium", url))


def run_compass(part, h, w):
    from cspuz.puzzle import compass

    arms = [-1, 0, 2, 16]
    cells = [(y, x) for y in range(h) for x in range(w)]
    problems = []
    for (y, x) in cells:
        for a in itertools.product(arms, repeat=4):
            problems.append([(y, x) + a])
    for (p, q) in itertools.combinations(cells, 2):
        problems.append([p + (1, -1, 15, 3), q + (-1, 255, -1, 0)])
    if len(cells) >= 3:
        problems.append([cells[0] + (0, 0, 0, 0), cells[len(cells) // 2] + (-1, -1, -1, -1), cells[-1] + (16, 17, 18, 19)])
    for pos in problems:
        case = {"codec": "compass", "height": h, "width": w, "problem": [list(p) for p in pos]}
        part.count("evaluations")
        try:
            url = compass.to_puzz_link_url(h, w, list(pos))
        except Exception as e:
            part.violation("compass:encode-raises-%s" % type(e).__name__, case, {"exception": repr(e)[:200]})
            continue
        body = url_ok(url, "compass", h, w)
        if body is None:
            part.violation("compass:url-shape", case, {"url": url})
            continue
        try:
            back = compass.parse_puzz_link_url(url)
        except Exception as e:
            part.violation("compass:decode-raises-%s" % type(e).__name__, case, {"url": url, "exception": repr(e)[:200]})
            continue
        if not (isinstance(back, tuple) and len(back) == 3 and back[0] == h and back[1] == w and sorted(back[2]) == sorted(pos)):
            part.violation("compass:roundtrip-differs" + ("[non-square]" if h != w else ""), case, {"url": url, "decoded": back})
            continue
        try:
            refp = pzpr_ref.compass(body, h, w)
        except pzpr_ref.RefError as e:
            part.violation("compass:body-not-pzpr", case, {"url": url, "reference_decoder": str(e)})
            continue
        if sorted(refp) != sorted(pos):
            part.violation("compass:pzpr-reads-different-problem", case, {"url": url, "reference_decoder": refp})
            continue
        part.add("nontrivial", ("compass", url))


def worker(shard, part):
    what = shard[0]
    if what == "grid":
        _, cname, h, w, cap = shard
        run_grid_codec(part, cname, h, w, cap)
        if (h, w) == (2, 3):
            part.sample({"codec": cname, "board": [h, w], "layouts": "all with <= k non-default cells (k in coverage.bounds)"})
    elif what == "rooms":
        _, h, w, cap = shard
        run_room_codecs(part, h, w, cap)
        if (h, w) == (2, 2):
            part.sample({"codecs": "lits norinori heyawake star_battle aquarium + legacy segmentation encoder", "board": [h, w]})
    else:
        _, h, w = shard
        run_compass(part, h, w)


def main(tier, seed, only=None):
    cap = 600 if tier == "quick" else 40000
    shards = []
    dims = [(h, w) for h in (1, 2, 3) for w in (1, 2, 3)]
    if tier != "quick":
        dims += [(1, 5), (5, 1), (2, 4), (4, 2), (4, 4), (1, 23), (23, 1), (1, 41)]
    for cname in GRID_CODECS:
        for h, w in dims:
            shards.append(("grid", cname, h, w, cap if h * w <= 9 else 2000))
    maxcells = 6 if tier == "quick" else 9
    for h in range(1, 10):
        for w in range(1, 10):
            if h * w <= maxcells:
                shards.append(("rooms", h, w, 300 if tier == "quick" else 3000))
    for h, w in [(h, w) for h in (1, 2, 3) for w in (1, 2, 3)] + ([(2, 4), (4, 3)] if tier != "quick" else []):
        shards.append(("compass", h, w))
    # scale family: boards with more than 256 cells / rows wider than 32 (a few structured problems each)
    for h, w in ([(17, 17), (2, 40), (1, 300)] if tier == "quick" else [(17, 17), (16, 16), (2, 40), (40, 2), (1, 300), (300, 1), (33, 33), (20, 36)]):
        for cname in GRID_CODECS:
            shards.append(("grid", cname, h, w, "big"))
        if h * w <= 700 and h > 1 and w > 1:
            shards.append(("rooms", h, w, 40))
    if only:
        shards = [s for s in shards if s[0] == only or (len(s) > 1 and s[1] == only)]
    run = harness.Run(
        PID, tier, seed, "exploration",
        "grid codecs nurikabe, sudoku, nurimisaki, masyu, slitherlink, yajilin on boards h,w in 1..3%s: all layouts with <= k non-default "
        "cells over the module's alphabet + boundary values (15/16/255/256/4095, yajilin '??' and counts 0..255), k maximal under a cap of %d "
        "layouts per board (k per board in coverage.bounds), plus full boards; room codecs lits, norinori, heyawake (room and rectangle "
        "forms), star_battle, aquarium on every partition of every board with <= %d cells into connected rooms, in canonical and reversed "
        "order; scale family: boards 17x17, 2x40, 1x300 (thorough 33x33, 20x36, 300x1) with empty / dense / sparse / last-cell layouts and structured room "
        "partitions (one room, single cells, stripes, 2x3 blocks); compass with one compass at every cell x all 4^4 arm vectors over {-1,0,2,16} and pairs at all position pairs.  Checks: "
        "round trip incl. dimensions, URL = https://puzz.link/p?<name>/<w>/<h>/<body>, independent pzpr decoder agrees, legacy "
        "encode_array / encode_grid_segmentation == combinator text." % ("" if tier == "quick" else " + 1x5, 2x4, 4x4, 1x23, 1x41 and transposes", cap, maxcells),
    )
    run.assumptions = [
        "mc/pzpr_ref.py is my transcription of the pzpr encodings (number16, 4cell, circle, arrownumber16, border, compass); it is anchored on the "
        "real-world URLs quoted in the repository's tests (selftest) - the pzpr JavaScript itself is not available offline",
    ]
    par.run_shards(run, worker, shards, seed)
    cov = {
        "evaluations": run.c("evaluations"),
        "distinct_nontrivial": run.n("nontrivial"),
        "bounds": sorted("%s %dx%d k=%d" % b for b in run.total.sets.get("bounds", ())),
        "exhaustive": True,
    }
    return run.finish(cov)


def replay(case):
    part = harness.Partial()
    c = case.get("codec")
    h, w = case.get("height"), case.get("width")
    if c in GRID_CODECS:
        run_grid_codec(part, c, h, w, "big" if h * w > 50 else (40000 if h * w <= 9 else 2000))
        mine = [v for v in part.violations if harness.jsonable(v.case.get("problem")) == case.get("problem")]
    elif c == "compass":
        run_compass(part, h, w)
        mine = [v for v in part.violations if harness.jsonable(v.case.get("problem")) == case.get("problem")]
    else:
        run_room_codecs(part, h, w, 3000)
        mine = [v for v in part.violations if all(harness.jsonable(v.case.get(k)) == case.get(k) for k in case)]
    return (not mine), (mine[0].detail if mine else "agrees")
