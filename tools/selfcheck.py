#!/venv/bin/python
"""MANIFEST.setup_cmd: nothing to build (pure Python); verify the environment
and run the oracle self-tests (reference models against hand-computed cases)."""
import importlib
import os
import sys

HERE = os.path.dirname(os.path.dirname(os.path.abspath(__file__)))
sys.path.insert(0, HERE)
sys.dont_write_bytecode = True
from mc import harness

harness.bind_repo()
import z3  # noqa: F401  (the only backend runnable offline)

failed = 0
for name in sorted(os.listdir(os.path.join(HERE, "mc"))):
    if not name.endswith(".py") or name.startswith("_"):
        continue
    mod = importlib.import_module("mc." + name[:-3])
    st = getattr(mod, "selftest", None)
    if st:
        try:
            st()
            print("selftest ok: mc/%s" % name)
        except Exception as e:  # pragma: no cover
            failed += 1
            print("selftest FAILED: mc/%s: %r" % (name, e))
try:
    from mc.rules import base as _rb

    _rb.selftest()
    print("selftest ok: mc/rules/base.py")
except Exception as e:  # pragma: no cover
    failed += 1
    print("selftest FAILED: mc/rules/base.py: %r" % (e,))
os.chmod(os.path.join(HERE, "check"), 0o755)
sys.exit(1 if failed else 0)
