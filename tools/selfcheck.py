#!/venv/bin/python
"""MANIFEST.setup_cmd: nothing to build (pure Python); verify the environment
and run the oracle self-tests (reference models against hand-computed cases)."""
import importlib
import os
import sys

HERE = os.path.dirname(os.path.dirname(os.path.abspath(__file__)))
sys.path.insert(0, HERE)
sys.dont_write_bytecode = True
from mc import harness

harness.bind_repo()
import z3  # noqa: F401  (the only backend runnable offline)

failed = 0
for name in sorted(os.listdir(os.path.join(HERE, "mc"))):
    if not name.endswith(".py") or name.startswith("_"):
        continue
    mod = importlib.import_module("mc." + name[:-3])
    st = getattr(mod, "selftest", None)
    if st:
        try:
            st()
            print("selftest ok: mc/%s" % name)
        except Exception as e:  # pragma: no cover
            failed += 1
            print("selftest FAILED: mc/%s: %r" % (name, e))
try:
    from mc.rules import base as _rb

    _rb.selftest()
    print("selftest ok: mc/rules/base.py")
except Exception as e:  # pragma: no cover
    failed += 1
    print("selftest FAILED: mc/rules/base.py: %r" % (e,))
try:
    # stored inputs of the weave family: every pattern must be what its record says (a single closed strand of that
    # length with that many crossings) according to the C10 oracle that judges it at run time
    import json

    from props.c06 import frame_edges
    from props.c10 import oracle

    weaves = json.load(open(os.path.join(HERE, "mc", "data", "weaves.json")))
    nw = 0
    for name, entries in weaves.items():
        h, w = (int(t) for t in name.split("x"))
        segs = frame_edges(h, w)
        for e in entries:
            pat = [bool(b) for b in e["pattern"]]
            ok, vis, crs = oracle(h, w, segs, pat, True)
            assert ok and sum(pat) == e["length"] and sum(crs) == e["crossings"], (name, e["length"])
            nw += 1
    print("selftest ok: mc/data/weaves.json (%d stored strands re-judged)" % nw)
except Exception as e:  # pragma: no cover
    failed += 1
    print("selftest FAILED: mc/data/weaves.json: %r" % (e,))
os.chmod(os.path.join(HERE, "check"), 0o755)
sys.exit(1 if failed else 0)
