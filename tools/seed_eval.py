#!/venv/bin/python
"""Confirm a seeded property-breaking change and run checks against it.

usage: tools/seed_eval.py <dir with patch.diff demo.py notes.json> <seed id> <property> <check[:tier]> [...]

Steps (all on scratch copies of /repo under /tmp, removed afterwards):
  1. patch applies; 2. repository baseline tests still pass with it; 3. demo passes on the clean tree and fails with the
  patch; 4. each listed check is run against the patched copy.  Writes /verif/seeded/<seed id>/{patch.diff,demo.py,meta.json}.
"""
import json, os, shutil, subprocess, sys, tempfile, time

def sh(cmd, **kw):
    return subprocess.run(cmd, capture_output=True, text=True, **kw)

def main():
    src, sid, prop = sys.argv[1:4]
    checks = sys.argv[4:]
    tmp = tempfile.mkdtemp(prefix="seed_", dir="/tmp")
    clean = os.path.join(tmp, "clean"); pat = os.path.join(tmp, "patched")
    ign = shutil.ignore_patterns(".git", "__pycache__", "*.egg-info")
    meta = {"seed_id": sid, "property": prop, "ran": [], "confirmed": False}
    try:
        notes = {}
        try: notes = json.load(open(os.path.join(src, "notes.json")))
        except Exception:
            try: notes = json.load(open(os.path.join(src, "meta.json")))
            except Exception: pass
        meta["what_breaks"] = notes.get("what_breaks"); meta["needs_to_manifest"] = notes.get("needs_to_manifest"); meta["files_changed"] = notes.get("files_changed")
        prev = None
        if os.environ.get("SEED_REUSE"):
            # re-run only the checks: the confirmation steps (tests, demo) recorded earlier for this very patch and /repo HEAD are kept
            try:
                prev = json.load(open(os.path.join("/verif/seeded", sid, "meta.json")))
                head = sh(["git", "-C", "/repo", "rev-parse", "HEAD"]).stdout.strip()
                if not (prev.get("confirmed") and prev.get("repo_head", head) == head):
                    prev = None
            except Exception:
                prev = None
        meta["repo_head"] = sh(["git", "-C", "/repo", "rev-parse", "HEAD"]).stdout.strip()
        shutil.copytree("/repo", pat, ignore=ign)
        r = sh(["patch", "-p1", "-s", "-i", os.path.abspath(os.path.join(src, "patch.diff"))], cwd=pat)
        meta["ran"].append("patch -p1 < patch.diff on a copy of /repo HEAD: exit %d" % r.returncode)
        if r.returncode: print("PATCH FAILED", r.stdout, r.stderr); return 2
        if prev is not None:
            meta["ran"] = list(prev["ran"][:3])
            meta["confirmed"] = True
            return run_checks(meta, checks, pat, tmp, src, sid, os.path.abspath(os.path.join(src, "demo.py")))
        shutil.copytree("/repo", clean, ignore=ign)
        r = sh(["/venv/bin/python", "/verif/tools/baseline.py", pat]); line = r.stdout.strip().splitlines()[0]
        meta["ran"].append("tools/baseline.py <patched>: " + line); tests_ok = r.returncode == 0
        print(line)
        env = dict(os.environ)
        for k in list(env):
            if k.startswith("CSPUZ_"): del env[k]
        d = os.path.abspath(os.path.join(src, "demo.py"))
        r1 = sh(["/venv/bin/python", d], env=dict(env, PYTHONPATH=clean), cwd=tmp)
        r2 = sh(["/venv/bin/python", d], env=dict(env, PYTHONPATH=pat), cwd=tmp)
        meta["ran"].append("demo.py on clean copy: exit %d; on patched copy: exit %d" % (r1.returncode, r2.returncode))
        print("demo clean exit=%d patched exit=%d" % (r1.returncode, r2.returncode)); print("   " + (r2.stdout.strip().splitlines() or [""])[-1][:200])
        meta["confirmed"] = bool(tests_ok and r1.returncode == 0 and r2.returncode != 0)
        return run_checks(meta, checks, pat, tmp, src, sid, d)
    finally:
        shutil.rmtree(tmp, ignore_errors=True)
    return 0

def run_checks(meta, checks, pat, tmp, src, sid, d):
    if True:
        meta["detected_by"] = []; meta["check_results"] = {}
        for c in checks:
            tier = "quick"
            if ":" in c: c, tier = c.split(":")
            e = dict(os.environ, CSPUZ_REPO=pat, VERIF_EVIDENCE_DIR=os.path.join(tmp, "ev"), VERIF_REPLAY_DIR=os.path.join(tmp, "rp"))
            t = time.time(); r = sh(["/verif/check", c, "--tier", tier], cwd="/verif", env=e)
            keys = sorted(set(l.strip().split(" detail=")[0] for l in r.stdout.splitlines() if l.startswith("  key=")))
            meta["check_results"]["%s:%s" % (c, tier)] = {"exit": r.returncode, "keys": keys[:6], "wall_s": round(time.time() - t, 1)}
            meta["ran"].append("CSPUZ_REPO=<patched> ./check %s --tier %s: exit %d" % (c, tier, r.returncode))
            print("%s:%s exit=%d %s" % (c, tier, r.returncode, "; ".join(keys[:3])[:300]))
            if r.returncode == 1: meta["detected_by"].append("%s:%s" % (c, tier))
        out = os.path.join("/verif/seeded", sid); os.makedirs(out, exist_ok=True)
        if os.path.abspath(src) != os.path.abspath(out):
            shutil.copy(os.path.join(src, "patch.diff"), out); shutil.copy(d, out)
        json.dump(meta, open(os.path.join(out, "meta.json"), "w"), indent=1)
        print("confirmed=%s detected_by=%s" % (meta["confirmed"], meta["detected_by"]))
    return 0
sys.exit(main())
