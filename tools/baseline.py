#!/venv/bin/python
"""Run the repository's pinned test command in <repo dir> (default /repo) and
compare with /root/.vp/BASELINE.json: every test in stable_pass must pass.
Exit 0 iff so.  Usage: tools/baseline.py [repo_dir]
"""

import json
import os
import subprocess
import sys
import tempfile
import xml.etree.ElementTree as ET


def main():
    repo = sys.argv[1] if len(sys.argv) > 1 else "/repo"
    base = json.load(open("/root/.vp/BASELINE.json"))
    want = set(base["stable_pass"])
    fd, path = tempfile.mkstemp(suffix=".xml", prefix="baseline_", dir="/var/tmp")
    os.close(fd)
    env = dict(os.environ)
    for k in list(env):
        if k.startswith("CSPUZ_"):
            del env[k]  # guard OFF, and no configuration leakage
    env["PYTHONPATH"] = repo
    cmd = [
        "/venv/bin/python", "-m", "pytest", "-ra", "-q", "-p", "no:cacheprovider", "--timeout=900",
        "--continue-on-collection-errors", "--junitxml=" + path,
    ]
    subprocess.run(cmd, cwd=repo, env=env, stdout=subprocess.DEVNULL, stderr=subprocess.DEVNULL)
    passed = set()
    for tc in ET.parse(path).getroot().iter("testcase"):
        bad = any(ch.tag in ("failure", "error", "skipped") for ch in tc)
        if not bad:
            passed.add(tc.get("classname") + "::" + tc.get("name"))
    os.unlink(path)
    missing = sorted(want - passed)
    print("baseline: %d/%d stable tests pass in %s" % (len(want) - len(missing), len(want), repo))
    for m in missing[:20]:
        print("  NOT PASSING: " + m)
    return 1 if missing else 0


if __name__ == "__main__":
    sys.exit(main())
