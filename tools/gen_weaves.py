#!/venv/bin/python
"""Generate mc/data/weaves.json: long self-crossing single strands on mid-sized frames (inputs for C10 / C06).

Every even-degree segment set of an h x w frame is the XOR of cell boundaries, so all 2^(h*w) of them are enumerated
(boards up to 20 cells) and judged by C10's oracle; kept per board: the longest closed single strands, the ones with the
most crossings, and the longest without any crossing.  The file only stores *inputs*; the checks recompute the expected
verdict of every stored pattern with the oracle at run time.
"""
import json, os, sys
from multiprocessing import Pool

sys.path.insert(0, os.path.dirname(os.path.dirname(os.path.abspath(__file__))))
from props.c06 import frame_edges  # noqa: E402
from props.c10 import oracle  # noqa: E402


def cell_masks(h, w):
    segs = frame_edges(h, w)
    idx = {(a, y, x): k for k, (a, y, x, _) in enumerate(segs)}
    out = []
    for y in range(h):
        for x in range(w):
            m = 0
            for key in (("h", y, x), ("h", y + 1, x), ("v", y, x), ("v", y, x + 1)):
                m |= 1 << idx[key]
            out.append(m)
    return segs, out


def scan(args):
    h, w, lo, hi = args
    segs, cm = cell_masks(h, w)
    n = len(segs)
    best = []
    # Gray-code walk over cell subsets
    cur = 0
    g_prev = 0
    for i in range(lo, hi):
        g = i ^ (i >> 1)
        if i == lo:
            cur = 0
            for b in range(h * w):
                if g >> b & 1:
                    cur ^= cm[b]
        else:
            d = g ^ g_prev
            cur ^= cm[d.bit_length() - 1]
        g_prev = g
        L = bin(cur).count("1")
        if L < 4:
            continue
        pat = [bool(cur >> k & 1) for k in range(n)]
        ok, vis, crs = oracle(h, w, segs, pat, True)
        if ok:
            best.append((L, sum(crs), cur))
    best.sort(reverse=True)
    keep = best[:6] + sorted(best, key=lambda t: (-t[1], -t[0]))[:4] + [t for t in best if t[1] == 0][:2]
    return keep


def main():
    out = {}
    for h, w in ((3, 3), (3, 4), (4, 3), (4, 4), (3, 5), (5, 3), (4, 5), (5, 4), (3, 6), (6, 3), (5, 5)):
        total = 1 << (h * w)
        step = max(1, total // 64)
        with Pool(16) as p:
            res = p.map(scan, [(h, w, lo, min(total, lo + step)) for lo in range(0, total, step)])
        allk = sorted(set(t for r in res for t in r), reverse=True)
        keep = allk[:4] + sorted(allk, key=lambda t: (-t[1], -t[0]))[:3] + [t for t in allk if t[1] == 0][:1]
        n = (h + 1) * w + h * (w + 1)
        out["%dx%d" % (h, w)] = [{"length": L, "crossings": c, "pattern": [int(m >> k & 1) for k in range(n)]} for L, c, m in dict.fromkeys(keep)]
        print(h, w, [(L, c) for L, c, m in dict.fromkeys(keep)], flush=True)
    path = os.path.join(os.path.dirname(os.path.dirname(os.path.abspath(__file__))), "mc", "data", "weaves.json")
    json.dump(out, open(path, "w"), indent=0, sort_keys=True)


if __name__ == "__main__":
    main()
