#!/venv/bin/python
"""Regenerate MANIFEST.json from the table in tools/manifest_table.py."""
import json, os, sys
HERE = os.path.dirname(os.path.abspath(__file__))
sys.path.insert(0, HERE)
import manifest_table as T

checks = []
for c in sorted(T.CHECKS, key=lambda c: c["id"]):
    pid = c["id"]
    checks.append({
        "property_id": pid,
        "quick_cmd": "./check %s --tier quick" % pid,
        "thorough_cmd": "./check %s --tier thorough" % pid,
        "evidence_file": "/verif/evidence/%s.json" % pid,
        "replay_cmd_template": "./check %s --replay {path}" % pid,
        "engine": c["engine"],
        "level_claimed": {"category": c["category"], "text": c["text"], "design_ref": c["design_ref"]},
        "level_note": c["note"],
        "technique": c["technique"],
    })
claimed = {c["id"] for c in T.CHECKS}
na = [{"property_id": p, "reason": r} for p, r in T.NOT_APPLICABLE if p not in claimed]
m = {
    "version": 1,
    "setup_cmd": T.SETUP,
    "hooks": T.HOOKS,
    "engines": T.ENGINES,
    "checks": checks,
    "not_applicable": na,
    "notes": T.NOTES,
}
json.dump(m, open(os.path.join(os.path.dirname(HERE), "MANIFEST.json"), "w"), indent=1)
import subprocess
print("wrote MANIFEST.json with %d checks, %d not_applicable" % (len(checks), len(na)))
