SETUP = "/venv/bin/python tools/selfcheck.py"

HOOKS = {
    "guard": "CSPUZ_VERIF",
    "enable": "no source hooks exist: every seam used (backend= class argument, sys.modules, config.backend_path, "
    "module-level PRNG objects, os.environ) is reachable from outside the repository; checks import cspuz from "
    "/repo's working tree in a fresh interpreter (CSPUZ_VERIF=1 is exported but nothing in /repo reads it)",
    "baseline_off_cmd": "/venv/bin/python tools/baseline.py /repo",
    "source_commits": [],
    "add_only": True,
}

ENGINES = [
    {
        "name": "E3-choice-tape",
        "path": "mc/tape.py",
        "serves_properties": ["C02", "C03", "C18", "C19"],
        "kind_free_text": "stateless depth-first exploration of environment answers (which model / which reply order / which "
        "PRNG draw) with prefix replay and divergence detection",
    },
    {
        "name": "E2-bfs",
        "path": "props/c01.py",
        "serves_properties": ["C01", "C18", "C19", "C20"],
        "kind_free_text": "explicit-state breadth-first search over event histories replayed on fresh real objects, canonical-state "
        "dedup, invariant evaluated on every transition",
    },
    {
        "name": "E1-enumerator",
        "path": "mc/par.py",
        "serves_properties": ["C01", "C03", "C04", "C05", "C06", "C07", "C08", "C09", "C10", "C11", "C12", "C13", "C14", "C15", "C16", "C17"],
        "kind_free_text": "bounded-exhaustive enumeration of a closed input space, sharded over 16 processes, every case "
        "executed on the real code and compared with a reference model",
    },
]

NOTES = (
    "All checks: ./check <id> [--tier quick|thorough] [--replay file]. VERIF_SEED rotates shard order only; the covered "
    "space is seed independent. Known findings / repaired defects: KNOWN_FINDINGS.txt. Every check = the exhaustive small scope "
    "named in its text + deterministic families beyond it (scale thresholds, object histories, structured mid-sized inputs such as "
    "the graph zoo and the longest winding loops, dense parameter sweeps, call spellings, aliasing and two-layer uses of one object); "
    "the exact lists are in each evidence file (coverage.bounds) and in DESIGN.md 7.2 / 7.5; 163 independently written "
    "property-breaking changes and the checks that report them are in seeded/ and DESIGN.md 7.7."
)

CHECKS = [
    {
        "id": "C01",
        "engine": "E1-enumerator+E2-bfs",
        "category": "model_checking",
        "technique": "bounded-exhaustive program enumeration + explicit-state BFS over incremental sessions, brute-force reference evaluator as oracle",
        "text": "Every expression tree with <=2 operator nodes (3 on a minimal leaf set in thorough) built through every DSL "
        "constructor, under several domain pairs, is solved by the real find_answer/Z3Backend and judged against the brute-force "
        "solution set of an independent evaluator (verdict, sol types, bounds, membership, whole truth table); all "
        "declare/ensure/find_answer histories to depth 5-6 are explored by BFS with a fresh-Solver differential.",
        "design_ref": "DESIGN.md section 2, C01",
        "note": "Only the z3 backend runs offline; deeper trees rely on the translation being operator-by-operator and context "
        "free (small-scope argument). Trusted: mc/refsem.py (self-tested on hand-computed cases).",
    },
    {
        "id": "C02",
        "engine": "E3-choice-tape",
        "category": "model_checking",
        "technique": "stateless choice-tape DFS over every model choice of a scripted conforming backend, all solution sets x key subsets enumerated",
        "text": "The real Solver.solve is executed for every subset S of the assignment space of 1-3 small variables, every "
        "answer-key subset and every sequence of models a conforming backend may return (choice tape, no deviation bound); the "
        "same cases go through the real z3 backend, through the sugar wire protocol with every model choice, and through the four "
        "native-deduction backends with every reply-line order; oracle = exact common facts of S.",
        "design_ref": "DESIGN.md section 2, C02",
        "note": "Conforming-backend assumption (returns some model of all constraints given). External solvers are replaced by "
        "the reference solver mc/sugar_model.py. More than 3 variables / domains wider than 3 values are covered by the argument "
        "that the loop only compares per-variable values.",
    },
    {
        "id": "C03",
        "engine": "E1-enumerator+E3-choice-tape",
        "category": "model_checking",
        "technique": "exhaustive program/reply enumeration with a reference Sugar parser+solver behind the real entry points; choice tape over model choice and reply-line order",
        "text": "Every program of the C01 generator (k<=1 over all leaves, k=2 on reduced leaves) plus native-operator programs on "
        "all graphs n<=3 is emitted through all five backend names; each captured text is parsed by a strict grammar, its "
        "declarations/keys compared with the Solver and its denotation compared with the cspuz program on every assignment; every "
        "well-formed reply of both formats for <=3 variables is fed to the parsers; results through module and subprocess entry "
        "points must satisfy the C01/C02 oracles for every model choice / line order.",
        "design_ref": "DESIGN.md section 2, C03",
        "note": "Trusted base: my transcription of Sugar's syntax and of CspuzSugarInterface.java's output (mc/sugar_model.py). No "
        "real external solver binary exists offline, so only cspuz's side of the wire is validated.",
    },
    {
        "id": "C04",
        "engine": "E1-enumerator",
        "category": "exploration",
        "technique": "bounded-exhaustive enumeration of all small graphs/grids x all activity patterns, each decided on the real encoding (+z3 backend) against a plain graph-algorithm oracle",
        "text": "All labelled graphs n<=4 (5 thorough) in several edge-list presentations and all grids up to 8 (12) cells x all 2^n patterns x is_active forms (variables, negations, constants, mixed, x==y) x acyclic x encoding selection; every (case, pattern) is one find_answer compared with induced-connectivity / tree oracle.",
        "design_ref": "DESIGN.md section 2, C04",
        "note": "Encoding + cspuz z3 backend are the implementation under test; native route uses R-native semantics via mc/native_backend.py. Larger graphs: small-scope argument (per-vertex local encoding).",
    },
    {
        "id": "C06",
        "engine": "E1-enumerator",
        "category": "exploration",
        "technique": "bounded-exhaustive enumeration of all small graphs/grids x all activity patterns, each decided on the real encoding (+z3 backend) against a plain graph-algorithm oracle",
        "text": "All loop-free multigraphs up to an edge bound and all BoolGridFrame sizes up to 12 (17) edges x all edge subsets; cycle with both encodings, path native-only; admitted subsets additionally force the returned passed array (second UNSAT solve).",
        "design_ref": "DESIGN.md section 2, C06",
        "note": "Native route decided with R-native semantics on the line graph; loops outside the quantifier.",
    },
    {
        "id": "C08",
        "engine": "E1-enumerator",
        "category": "exploration",
        "technique": "bounded-exhaustive enumeration of all small graphs/grids x all activity patterns, each decided on the real encoding (+z3 backend) against a plain graph-algorithm oracle",
        "text": "All labelled graphs n<=4 (5) and all grids up to 9 (12) cells incl. every 1xN/Nx1 x all patterns; three-way differential definition / graph route / specialised grid route.",
        "design_ref": "DESIGN.md section 2, C08",
        "note": "Encoding + z3 backend under test; empty inactive set counts as connected.",
    },
    {
        "id": "C09",
        "engine": "E1-enumerator",
        "category": "exploration",
        "technique": "bounded-exhaustive enumeration of all small graphs/grids x all activity patterns, each decided on the real encoding (+z3 backend) against a plain graph-algorithm oracle",
        "text": "All loop-free multigraphs n<=4 with <=5 (6) edges (+ all 5-vertex simple graphs with <=7 edges in thorough) x all edge subsets x flag forms (variables, negations, constants, x|y, paired v/~v).",
        "design_ref": "DESIGN.md section 2, C09",
        "note": "Encoding + z3 backend under test; loops outside the quantifier.",
    },
    {
        "id": "C05",
        "engine": "E1-enumerator",
        "category": "exploration",
        "technique": "bounded-exhaustive enumeration of all small graphs/grids x all patterns, each decided on the real encoding (+z3 backend) against a plain graph-algorithm oracle",
        "text": "All labelled graphs n<=4 (5) and grids <=6 (8) cells x num_regions 1..3 (4) x ALL labelings x roots lists x allow_empty_group x both encodings x division as IntArray1D / list / IntArray2D / literals, each labeling one find_answer against the class-connectivity oracle.",
        "design_ref": "DESIGN.md section 2, C05",
        "note": "Encoding + z3 backend under test; native route via R-native; labels inside 0..num_regions-1 is the property's premise.",
    },
    {
        "id": "C07",
        "engine": "E1-enumerator",
        "category": "exploration",
        "technique": "bounded-exhaustive enumeration of all small graphs/grids x all patterns, each decided on the real encoding (+z3 backend) against a plain graph-algorithm oracle",
        "text": "Without borders: all graphs n<=4 (5) and grids, ALL set partitions imposed on the returned ids, all group_size forms; with borders: ALL 2^m border patterns on all graphs n<=4 and inner grid frames <=6 (8) cells, native graph-division operator off/on/by config.",
        "design_ref": "DESIGN.md section 2, C07",
        "note": "Encoding + z3 backend under test; native graph-division via R-native with a sound block-size lemma (mc/native_backend.py).",
    },
    {
        "id": "C10",
        "engine": "E1-enumerator",
        "category": "exploration",
        "technique": "bounded-exhaustive enumeration of all small graphs/grids x all patterns, each decided on the real encoding (+z3 backend) against a plain graph-algorithm oracle",
        "text": "All BoolGridFrame sizes up to 12 (17) segments x ALL segment subsets x single_cycle off/on/alias x encodings; admitted subsets additionally force both returned arrays.",
        "design_ref": "DESIGN.md section 2, C10",
        "note": "Frames of 3x3 and larger rest on the small-scope argument.",
    },
    {
        "id": "C12",
        "engine": "E1-enumerator",
        "category": "exploration",
        "technique": "bounded-exhaustive enumeration of operator forms x operand kinds x shapes with a reference tree evaluator over all assignments",
        "text": "Every operator form x operand-kind combination x small shape is built on the real arrays and every produced element is evaluated under all 36 assignments against the Python meaning; every shape mismatch and every bool/int expression-or-array kind mismatch must raise; aggregate helpers over every nesting of <=3 (4) leaves; conv2d under all 2^(hw) assignments; four_neighbors at every coordinate.",
        "design_ref": "DESIGN.md section 2, C12",
        "note": "== / != across kinds and bool literals in integer positions are not judged; any exception type counts as rejection; value oracle mc/refsem.py.",
    },
    {
        "id": "C14",
        "engine": "E1-enumerator",
        "category": "exploration",
        "technique": "bounded-exhaustive enumeration of frame sizes x coordinates against a lattice reference model",
        "text": "Frames h,w in 0..3 (0..5), three constructions, every coordinate in and around the frame for every accessor, compared on variable identity with a pair-of-lattice-points model; dual is an involution; the loop-constraint graph lists each segment once.",
        "design_ref": "DESIGN.md section 2, C14",
        "note": "Order inside neighbour lists is not judged.",
    },
    {
        "id": "C15",
        "engine": "E1-enumerator",
        "category": "exploration",
        "technique": "bounded-exhaustive enumeration of combinator terms x domain values, round-trip oracle",
        "text": "A term language over the combinators (bases with parameter menus, all FIRST-disjoint OneOf of 2-3 alternatives, Seq/Grid/Tupl/Rooms/ValuedRooms to depth 3, ~3.7k terms) x type-directed value domains with boundary values, all boards h,w<=3 and blank runs up to 2*max+1 on 1xN/Nx1, every connected room partition of boards <=6 (9) cells in every order: decode(encode(v)) == v and consumed == produced.",
        "design_ref": "DESIGN.md section 2, C15",
        "note": "Value domains are harness-side (mc/serterms.py): a Tupl element list is exactly one step of its element; rooms are connected; terms with a greedy decimal reader followed by a digit are not admitted.",
    },
    {
        "id": "C16",
        "engine": "E1-enumerator",
        "category": "exploration",
        "technique": "bounded-exhaustive enumeration of problems per codec, round-trip + independent reference decoder (differential)",
        "text": "For 12 codecs all problems by the cap rule on boards h,w in 1..3 (+ longer lines and 4x4 in thorough) over alphabets with the encodings' boundary values, and all connected room partitions of boards <=6 (9) cells: decode(encode(p)) == p with dimensions, URL shape name/width/height/body, an independent pzpr decoder reads the body back as the same problem, legacy helper encoders equal the combinator text.",
        "design_ref": "DESIGN.md section 2, C16",
        "note": "mc/pzpr_ref.py is my transcription of the pzpr encodings, anchored on the real-world URLs quoted in the repository (selftest); pzpr's JavaScript is not available offline.",
    },
    {
        "id": "C17",
        "engine": "E1-enumerator",
        "category": "exploration",
        "technique": "bounded-exhaustive enumeration of input strings (all strings to length 4-5 over class representatives) with a totality + re-encodability oracle",
        "text": "ALL strings up to length 4 (5) over a 16-symbol class-representative alphabet for 21 codecs/terms under every declared (h,w) in {0..3}^2, a URL-level product of scheme/host/path/name/dimension/body classes through every decoding API, and one-room/striped boards up to 64x64: outcome must be None, ValueError or a problem of the declared dimensions that re-encodes stably.",
        "design_ref": "DESIGN.md section 2, C17",
        "note": "Character classes instead of full Unicode; bodies longer than the bound are covered by the argument that every combinator reads left to right with at most 4 characters of lookahead.",
    },
    {
        "id": "C18",
        "engine": "E2-bfs",
        "category": "model_checking",
        "technique": "explicit-state BFS over the real transition function with scripted PRNG seeds (all seed pairs) and canonical-state dedup",
        "text": "Explicit-state BFS to the fixpoint over room partitions of every board with <=6 (9) cells under every bound configuration over {None,1,2,3,hw}; transitions are the updates proposed by the real candidates() with the split seeds swept over all pairs, applied by the real copy_with_update; initial() explored with a choice tape; invariant (partition, connectivity, bounds) on every state, immutability on every transition.",
        "design_ref": "DESIGN.md section 2, C18",
        "note": "Canonical state = sorted blocks (each state expanded in two presentations); initial() dead ends (random.choice on no candidates) are not judged.",
    },
    {
        "id": "C19",
        "engine": "E2-bfs+E3-choice-tape",
        "category": "model_checking",
        "technique": "explicit-state BFS + stateless choice-tape exploration of PRNG draws and callback answers; exact enumeration of the raw PRNG domain at reduced size",
        "text": "(A) BFS over problems reachable through the real neighbour generator for 30+ builder patterns with the raw PRNG scripted so that every pair of consecutive draws takes every value pair; (B) generate_problem with solver answer, uniqueness, pretest and PRNG on a choice tape (bounded deviations); (C) exact distribution of randint/choice/shuffle/random over every raw value at reduced domain sizes; (D) same-seed reproducibility across global random states and callbacks.",
        "design_ref": "DESIGN.md section 2, C19",
        "note": "Uniformity is shown for the raw-draw -> result mapping at D in {8,12,16,60}; XorShift's own distribution is outside the property; deviation bound 3 (4) in (B).",
    },
    {
        "id": "C20",
        "engine": "E1-enumerator+E2-bfs",
        "category": "model_checking",
        "technique": "exhaustive enumeration of configurations + all event histories to depth 3 with spies, decision-table reference model",
        "text": "All 32000 combinations of the four environment variables (incl. malformed values) x importable-module subsets against a decision-table model (+40 in fresh interpreters), and all histories of <=3 events over 47 configuration/graph-call/solve-call events with spies on every backend entry point.",
        "design_ref": "DESIGN.md section 2, C20",
        "note": "Optional modules simulated through sys.modules; the decision table is my transcription of the property.",
    },
    {
        "id": "C11",
        "engine": "E1-enumerator",
        "category": "exploration",
        "technique": "bounded-exhaustive enumeration of boards x clue layouts per puzzle (cap rule), each solved by the real solve_<puzzle> and compared with an independent brute-force rule oracle enumerating ALL rule-obeying answers",
        "text": "For each of the 26 bundled puzzles a shape ladder (smallest boards first, both orientations, 1xN / Nx1 where the format allows) x all clue layouts with <= k clues under a per-shape cap; an independent rule module (mc/rules/<puzzle>.py) enumerates every rule-obeying answer; required: is_sat == (a solution exists) and each answer-key cell decided exactly when all solutions agree, with the agreed value; each module's published example must be solvable.",
        "design_ref": "DESIGN.md section 2, C11 and appendix A",
        "note": "'Published rules' are my transcription (appendix A); ambiguity envelope: nurikabe black region empty or not, aquarium water level per part vs per room, heyawake three-room rule read as 'at most one border crossed'. Boards beyond the ladders are not executed.",
    },
    {
        "id": "C13",
        "engine": "E1-enumerator",
        "category": "exploration",
        "technique": "bounded-exhaustive enumeration of all shapes x all index/slice keys against Python list-of-lists reference model",
        "text": "Every shape h,w<=4 and every int/slice/pair/coordinate-list key of a closed alphabet is executed on the real "
        "__getitem__ and compared on variable identity with nested-list indexing; a coverage statement, not a sample.",
        "design_ref": "DESIGN.md section 2, C13",
        "note": "Bounds beyond +-(size+3) and axes longer than 4 are covered by the small-scope argument only; step 0 and "
        "(empty row selection, bad int column) are not judged.",
    },
]

_PENDING = "check not built yet in this revision (planned, see DESIGN.md section 2)"
NOT_APPLICABLE = [("C%02d" % i, _PENDING) for i in range(1, 21)]
