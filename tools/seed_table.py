#!/venv/bin/python
"""Print the markdown table of seeded changes (seeded/*/meta.json) for DESIGN.md."""
import glob, json, os
rows = []
for f in sorted(glob.glob(os.path.join(os.path.dirname(os.path.dirname(os.path.abspath(__file__))), "seeded", "*", "meta.json"))):
    m = json.load(open(f))
    what = (m.get("what_breaks") or "").replace("\n", " ").replace("|", "/")
    if len(what) > 150:
        what = what[:147] + "..."
    det = ", ".join(m.get("detected_by") or []) or "**not detected**"
    rows.append("| %s | %s | %s | %s | %s |" % (m["seed_id"], m["property"], "yes" if m.get("confirmed") else "NO", det, what))
print("| seed | property | confirmed (tests pass, demo fails) | detected by | what it breaks |")
print("|---|---|---|---|---|")
print("\n".join(rows))
