#!/venv/bin/python
"""Apply a textual mutation to /repo's working tree, run the repository's baseline
tests and one or more checks, then revert.  For development of the checks only.

usage: tools/mutant.py <file> <old> <new> -- <check id> [<check id> ...]
       (old/new are literal strings; old must occur exactly once unless --all)
"""
import subprocess, sys, os

def main():
    args = sys.argv[1:]
    allocc = False
    if args and args[0] == "--all":
        allocc = True; args = args[1:]
    notests = False
    if args and args[0] == "--notests":
        notests = True; args = args[1:]
    sep = args.index("--")
    path, old, new = args[:sep]
    checks = args[sep + 1:]
    st = subprocess.run(["git", "-C", "/repo", "status", "--porcelain"], capture_output=True, text=True).stdout
    if st.strip():
        print("refusing: /repo working tree not clean"); return 2
    full = os.path.join("/repo", path)
    src = open(full).read()
    n = src.count(old)
    if n == 0 or (n > 1 and not allocc):
        print("pattern occurs %d times" % n); return 2
    open(full, "w").write(src.replace(old, new))
    try:
        if not notests:
            r = subprocess.run(["/venv/bin/python", "/verif/tools/baseline.py", "/repo"], capture_output=True, text=True)
            print(r.stdout.strip().splitlines()[0] if r.stdout.strip() else r.stderr[-300:])
        for c in checks:
            r = subprocess.run(["/verif/check", c], capture_output=True, text=True, cwd="/verif")
            lines = [l for l in r.stdout.splitlines() if l.startswith("VIOLATION") or l.startswith("  key=")]
            print("%s exit=%d  %s" % (c, r.returncode, r.stdout.strip().splitlines()[-1] if r.stdout.strip() else r.stderr[-400:]))
            for l in lines[:4]:
                print("   " + l[:220])
    finally:
        subprocess.run(["git", "-C", "/repo", "checkout", "--", "."])
        subprocess.run(["rm", "-rf", "/verif/replays"])
    return 0

sys.exit(main())
