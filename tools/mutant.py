#!/venv/bin/python
"""Apply a textual mutation (or a patch file) to a scratch copy of /repo, run the repository's
baseline tests and one or more checks against that copy (CSPUZ_REPO), then delete the copy.
/repo itself is never touched, so several of these can run side by side.

usage: tools/mutant.py [--all] [--notests] <file> <old> <new> -- <check id> ...
       tools/mutant.py [--notests] --patch <patch.diff> -- <check id> ...
"""
import os, shutil, subprocess, sys, tempfile

def main():
    args = sys.argv[1:]
    allocc = notests = False
    patch = None
    while args and args[0].startswith("--") and args[0] != "--":
        if args[0] == "--all": allocc = True; args = args[1:]
        elif args[0] == "--notests": notests = True; args = args[1:]
        elif args[0] == "--patch": patch = args[1]; args = args[2:]
        else: break
    sep = args.index("--")
    checks = args[sep + 1:]
    tmp = tempfile.mkdtemp(prefix="mut_", dir="/tmp")
    repo = os.path.join(tmp, "repo")
    try:
        shutil.copytree("/repo", repo, ignore=shutil.ignore_patterns(".git", "__pycache__", "*.egg-info"))
        if patch:
            r = subprocess.run(["patch", "-p1", "-s", "-i", os.path.abspath(patch)], cwd=repo, capture_output=True, text=True)
            if r.returncode:
                print("patch failed: " + r.stdout + r.stderr); return 2
        else:
            path, old, new = args[:sep]
            full = os.path.join(repo, path)
            src = open(full).read()
            n = src.count(old)
            if n == 0 or (n > 1 and not allocc):
                print("pattern occurs %d times" % n); return 2
            open(full, "w").write(src.replace(old, new))
        env = dict(os.environ, CSPUZ_REPO=repo)
        if not notests:
            r = subprocess.run(["/venv/bin/python", "/verif/tools/baseline.py", repo], capture_output=True, text=True)
            print(r.stdout.strip().splitlines()[0] if r.stdout.strip() else r.stderr[-300:])
        detected = []
        for c in checks:
            tier = "quick"
            if ":" in c:
                c, tier = c.split(":")
            env["VERIF_EVIDENCE_DIR"] = os.path.join(tmp, "evidence")
            env["VERIF_REPLAY_DIR"] = os.path.join(tmp, "replays")
            r = subprocess.run(["/verif/check", c, "--tier", tier], capture_output=True, text=True, cwd="/verif", env=env)
            lines = [l for l in r.stdout.splitlines() if l.startswith("VIOLATION") or l.startswith("  key=")]
            print("%s exit=%d  %s" % (c, r.returncode, r.stdout.strip().splitlines()[-1] if r.stdout.strip() else r.stderr[-400:]))
            for l in lines[:4]:
                print("   " + l[:220])
            if r.returncode == 1: detected.append(c)
        print("DETECTED-BY: " + (" ".join(detected) or "none"))
    finally:
        shutil.rmtree(tmp, ignore_errors=True)
    return 0

sys.exit(main())
