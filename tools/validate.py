#!/opt/veriftools/pyvenv/bin/python
"""Validate MANIFEST.json and every evidence file against the schemas in /root/.vp (run with python3-vt)."""
import glob, json, os, sys
import jsonschema
base = os.path.dirname(os.path.dirname(os.path.abspath(__file__)))
ok = True
m = json.load(open(os.path.join(base, "MANIFEST.json")))
jsonschema.validate(m, json.load(open("/root/.vp/MANIFEST.schema.json")))
es = json.load(open("/root/.vp/EVIDENCE.schema.json"))
claimed = {c["property_id"]: c for c in m["checks"]}
props = [json.loads(l)["id"] for l in open(os.path.join(base, "properties.jsonl"))]
na = {x["property_id"] for x in m.get("not_applicable", [])}
for p in props:
    if p not in claimed and p not in na:
        print("property neither claimed nor not_applicable:", p); ok = False
for pid, c in sorted(claimed.items()):
    f = c["evidence_file"]
    if not os.path.exists(f):
        print("missing evidence", f); ok = False; continue
    e = json.load(open(f))
    try:
        jsonschema.validate(e, es)
    except jsonschema.ValidationError as ex:
        print("INVALID", f, ex.message[:200]); ok = False; continue
    if e["level"] != c["level_claimed"]["category"]:
        print("level mismatch", pid, e["level"], c["level_claimed"]["category"]); ok = False
    print("%s %-15s tier=%s viol=%s wall=%.0fs %s" % (pid, e["level"], e["tier"], e.get("violations"), e["wall_s"],
          {k: e["coverage"].get(k) for k in ("evaluations", "distinct_nontrivial", "states", "transitions") if k in e["coverage"]}))
sys.exit(0 if ok else 1)
