#!/bin/bash
# Re-evaluate every stored seeded change against the current checks (quick tier of the property's own check).
cd /verif
for d in seeded/*/; do
  id=$(basename $d); prop=$(/venv/bin/python -c "import json;print(json.load(open('$d/meta.json'))['property'])")
  echo "=== $id"; tools/seed_eval.py $d $id $prop $prop "$@" 2>&1 | tail -1
done
