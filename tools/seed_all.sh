#!/bin/bash
# Re-evaluate every stored seeded change against the current checks (quick tier of the property's own check, plus the
# extra checks named below).  SEED_REUSE=1 keeps the recorded confirmation (tests + demo) and re-runs only the checks.
# usage: tools/seed_all.sh [jobs]
cd /verif
jobs=${1:-1}
extra() { case "$1" in C19-w3a) echo "C18";; C03-w2b) echo "C02";; C07-w2b) echo "C20";; C17-w2a) echo "C15";; *) echo "";; esac; }
export -f extra
ls -d seeded/*/ | xargs -P "$jobs" -I{} bash -c '
  d={}; id=$(basename $d); prop=$(/venv/bin/python -c "import json;print(json.load(open(\"$d/meta.json\"))[\"property\"])")
  out=$(tools/seed_eval.py $d $id $prop $prop $(extra $id) 2>&1 | tail -1); echo "=== $id $out"'
